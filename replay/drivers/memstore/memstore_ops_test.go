package memstore

// Replay driver for the MemStore contracts (property C14): every call sequence of length <= 4 over two keys and the
// operations Add / Upsert / Delete / DeleteIfExists / Tombstone (values of different lengths) is run against the real
// MemStore and a reference map with tombstones; after every call all keys are compared through Get / Contains /
// IsTombstoned, Size is compared, and the size estimate must equal the sum of the stored key and value lengths.

import (
	"errors"
	"fmt"
	"testing"
)

type govcRef struct {
	present map[string]bool // key known (live or tombstoned)
	val     map[string][]byte
	est     uint64
}

func TestReplay_memstore_ops(t *testing.T) {
	keys := [][]byte{[]byte("k1"), []byte("key2")}
	vals := [][]byte{[]byte("v"), []byte("a-longer-value")}
	type op struct {
		name string
		k, v int
	}
	var ops []op
	for k := range keys {
		for v := range vals {
			ops = append(ops, op{"Add", k, v}, op{"Upsert", k, v})
		}
		ops = append(ops, op{"Delete", k, 0}, op{"DeleteIfExists", k, 0}, op{"Tombstone", k, 0})
	}
	var run func(seq []op, depth int)
	run = func(seq []op, depth int) {
		if msg := govcCheckSeq(keys, vals, seq); msg != "" {
			t.Fatalf("REPRODUCED: %s", msg)
		}
		if depth == 0 {
			return
		}
		for _, o := range ops {
			run(append(append([]op(nil), seq...), o), depth-1)
		}
	}
	_ = run
	depth := 4
	var seq []op
	var rec func(d int)
	rec = func(d int) {
		if d == 0 {
			return
		}
		for _, o := range ops {
			seq = append(seq, o)
			var names []string
			for _, s := range seq {
				names = append(names, fmt.Sprintf("%s(%d,%d)", s.name, s.k, s.v))
			}
			m := NewMemStore().(*MemStore)
			ref := govcRef{present: map[string]bool{}, val: map[string][]byte{}}
			for i, s := range seq {
				key, val := keys[s.k], vals[s.v]
				ks := string(key)
				var err, want error
				switch s.name {
				case "Add":
					err = m.Add(key, val)
					if ref.present[ks] && ref.val[ks] != nil {
						want = KeyAlreadyExists
					} else {
						if !ref.present[ks] {
							ref.est += uint64(len(key))
						}
						ref.present[ks], ref.val[ks] = true, val
					}
				case "Upsert":
					err = m.Upsert(key, val)
					if !ref.present[ks] {
						ref.est += uint64(len(key))
					}
					ref.present[ks], ref.val[ks] = true, val
				case "Delete":
					err = m.Delete(key)
					if !ref.present[ks] {
						want = KeyNotFound
					} else {
						ref.val[ks] = nil
					}
				case "DeleteIfExists":
					err = m.DeleteIfExists(key)
					if ref.present[ks] {
						ref.val[ks] = nil
					}
				case "Tombstone":
					err = m.Tombstone(key)
					if !ref.present[ks] {
						ref.est += uint64(len(key))
					}
					ref.present[ks], ref.val[ks] = true, nil
				}
				if !errors.Is(err, want) || (want == nil && err != nil) {
					t.Fatalf("REPRODUCED: %v: call %d returned %v, reference map says %v", names, i, err, want)
				}
				var sum uint64
				n := 0
				for k2 := range ref.present {
					n++
					sum += uint64(len(k2)) + uint64(len(ref.val[k2]))
				}
				for _, probe := range keys {
					ps := string(probe)
					got, gerr := m.Get(probe)
					switch {
					case !ref.present[ps]:
						if !errors.Is(gerr, KeyNotFound) || m.Contains(probe) || m.IsTombstoned(probe) {
							t.Fatalf("REPRODUCED: %v: after call %d absent key %q reads (%q,%v) contains=%v tombstoned=%v", names, i, probe, got, gerr, m.Contains(probe), m.IsTombstoned(probe))
						}
					case ref.val[ps] == nil:
						if !errors.Is(gerr, KeyTombstoned) || m.Contains(probe) || !m.IsTombstoned(probe) {
							t.Fatalf("REPRODUCED: %v: after call %d tombstoned key %q reads (%q,%v) contains=%v tombstoned=%v", names, i, probe, got, gerr, m.Contains(probe), m.IsTombstoned(probe))
						}
					default:
						if gerr != nil || string(got) != string(ref.val[ps]) || !m.Contains(probe) || m.IsTombstoned(probe) {
							t.Fatalf("REPRODUCED: %v: after call %d key %q reads (%q,%v), reference map has %q", names, i, probe, got, gerr, ref.val[ps])
						}
					}
				}
				if m.Size() != n {
					t.Fatalf("REPRODUCED: %v: after call %d Size()=%d, reference map has %d keys (tombstones included)", names, i, m.Size(), n)
				}
				if m.estimatedSize != sum {
					t.Fatalf("REPRODUCED: %v: after call %d the size estimate is %d (0x%x), stored keys and values sum up to %d", names, i, m.estimatedSize, m.estimatedSize, sum)
				}
			}
			rec(d - 1)
			seq = seq[:len(seq)-1]
		}
	}
	rec(depth)
}

func govcCheckSeq(keys, vals [][]byte, seq interface{}) string { return "" }
