package gokaitai

// Bounded stand-in / replay driver for property C20: record sequences (nil, empty, short, marker bytes, long) are written
// by the real FileWriter under every compression type; the file is parsed with the Kaitai-generated reader and compared with
// the native reader: same number of records, same nil flags, and the stored payload - decoded with the codec the schema's
// enum NAMES for the file's compression code - equals what ReadNext returns.

import (
	"bytes"
	"compress/gzip"
	"compress/lzw"
	"errors"
	"fmt"
	"io"
	"os"
	"path/filepath"
	"strings"
	"testing"

	"github.com/golang/snappy"
	"github.com/kaitai-io/kaitai_struct_go_runtime/kaitai"
	"github.com/thomasjungblut/go-sstables/recordio"
)

func govcKaitaiRecords() [][]byte {
	return [][]byte{nil, {}, []byte("a"), {0x91, 0x8d, 0x4c}, bytes.Repeat([]byte("kaitai"), 40), bytes.Repeat([]byte{0}, 300)}
}

// the codec a consumer of the schema would pick from the enum member's name
func govcKaitaiDecode(name string, stored []byte) ([]byte, error) {
	switch name {
	case "none":
		return stored, nil
	case "snappy":
		return snappy.Decode(nil, stored)
	case "gzip":
		r, err := gzip.NewReader(bytes.NewReader(stored))
		if err != nil {
			return nil, err
		}
		return io.ReadAll(r)
	case "lzw":
		return io.ReadAll(lzw.NewReader(bytes.NewReader(stored), lzw.LSB, 8))
	}
	return nil, fmt.Errorf("compression code without a name in the schema (%s)", name)
}

// the names the published schema (kaitai/recordio_v4.ksy, enums.compression) gives to the compression codes
func govcKaitaiEnumNames(t *testing.T) map[int]string {
	b, err := os.ReadFile("../recordio_v4.ksy")
	if err != nil {
		t.Fatal(err)
	}
	names := map[int]string{}
	in := false
	for _, line := range strings.Split(string(b), "\n") {
		tr := strings.TrimSpace(line)
		if tr == "compression:" {
			in = true
			continue
		}
		if in {
			var code int
			var name string
			if _, err := fmt.Sscanf(strings.Replace(tr, ":", " ", 1), "%d %s", &code, &name); err != nil {
				break
			}
			names[code] = name
		}
	}
	return names
}

func TestReplay_kaitai_roundtrip(t *testing.T) {
	recs := govcKaitaiRecords()
	names := govcKaitaiEnumNames(t)
	dir, err := os.MkdirTemp("", "govc_c20")
	if err != nil {
		t.Fatal(err)
	}
	defer os.RemoveAll(dir)
	n := 0
	for comp := 0; comp <= 3; comp++ {
		// all sequences of length <= 2 plus the full list
		var seqs [][][]byte
		seqs = append(seqs, nil, recs)
		// stored lengths on both sides of every varint group boundary up to four groups (incompressible content)
		var sized [][]byte
		for _, l := range []int{127, 128, 16383, 16384, 2097151, 2097152} {
			b := make([]byte, l)
			x := uint32(l)*2654435761 + 1
			for i := range b {
				x ^= x << 13
				x ^= x >> 17
				x ^= x << 5
				b[i] = byte(x)
			}
			sized = append(sized, b)
		}
		seqs = append(seqs, append(sized, []byte("z")))
		for _, a := range recs {
			seqs = append(seqs, [][]byte{a})
			for _, b := range recs {
				seqs = append(seqs, [][]byte{a, b})
			}
		}
		for si, seq := range seqs {
			n++
			path := filepath.Join(dir, fmt.Sprintf("f_%d_%d", comp, si))
			w, err := recordio.NewFileWriter(recordio.Path(path), recordio.CompressionType(comp))
			if err != nil {
				t.Fatal(err)
			}
			if err := w.Open(); err != nil {
				t.Fatal(err)
			}
			for _, r := range seq {
				if _, err := w.Write(r); err != nil {
					t.Fatal(err)
				}
			}
			if err := w.Close(); err != nil {
				t.Fatal(err)
			}
			// native view
			nr, err := recordio.NewFileReaderWithPath(path)
			if err != nil {
				t.Fatal(err)
			}
			if err := nr.Open(); err != nil {
				t.Fatal(err)
			}
			var native [][]byte
			for {
				b, err := nr.ReadNext()
				if errors.Is(err, io.EOF) {
					break
				}
				if err != nil {
					t.Fatal(err)
				}
				if b != nil {
					b = append([]byte{}, b...)
				}
				native = append(native, b)
			}
			nr.Close()
			what := fmt.Sprintf("compression code %d, %d records (sequence %d)", comp, len(seq), si)
			f, err := os.Open(path)
			if err != nil {
				t.Fatal(err)
			}
			rio := NewRecordioV4()
			err = rio.Read(kaitai.NewStream(f), nil, rio)
			f.Close()
			if err != nil {
				t.Fatalf("REPRODUCED: %s: the Kaitai reader fails on a file the native reader reads: %v", what, err)
			}
			if len(rio.Record) != len(native) {
				t.Fatalf("REPRODUCED: %s: the Kaitai reader sees %d records, the native reader %d", what, len(rio.Record), len(native))
			}
			name, known := names[int(rio.FileHeader.CompressionType)]
			if !known {
				t.Fatalf("REPRODUCED: %s: the schema has no name for compression code %d", what, int(rio.FileHeader.CompressionType))
			}
			for i, rec := range rio.Record {
				if (rec.RecordNil == 1) != (native[i] == nil) {
					t.Fatalf("REPRODUCED: %s: record %d nil flag %d, native nil=%v", what, i, rec.RecordNil, native[i] == nil)
				}
				if native[i] == nil {
					if len(rec.Payload) != 0 {
						t.Fatalf("REPRODUCED: %s: nil record %d parsed with a payload of %d bytes", what, i, len(rec.Payload))
					}
					continue
				}
				dec, err := govcKaitaiDecode(name, rec.Payload)
				if err != nil {
					t.Fatalf("REPRODUCED: %s: stored payload of record %d does not decode with the codec the schema names %q for code %d: %v", what, i, name, comp, err)
				}
				if !bytes.Equal(dec, native[i]) {
					t.Fatalf("REPRODUCED: %s: record %d decodes (as %q) to %d bytes that differ from the %d bytes the native reader returns", what, i, name, len(dec), len(native[i]))
				}
			}
			os.Remove(path)
		}
	}
	t.Logf("kaitai_roundtrip: %d files", n)
}
