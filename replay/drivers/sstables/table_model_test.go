package sstables

// Bounded stand-in / replay driver for property C03: generated tables (ascending keys, values incl. nil / empty / marker
// bytes, optionally a last entry that dominates the index file) are written with the real stream writer and read back
// through every index loader (slice, skip list, map where applicable, disk); Contains, Get, Scan, ScanStartingAt and
// ScanRange for every probe (present, absent, below the minimum, above the maximum, inverted bounds) are compared with a
// sorted map of the written pairs. Every probe is repeated (the disk index caches lookups).

import (
	"bytes"
	"errors"
	"fmt"
	"os"
	"testing"

	"github.com/thomasjungblut/go-sstables/skiplist"
)

type govcKV struct{ k, v []byte }

func govcTableCases() [][]govcKV {
	big := bytes.Repeat([]byte("K"), 700) // a last key that dominates the index size
	marker := []byte{0x91, 0x8d, 0x4c}
	return [][]govcKV{
		{},
		{{[]byte("b"), []byte("vb")}},
		{{[]byte("b"), []byte("vb")}, {[]byte("d"), nil}, {[]byte("f"), []byte{}}, {[]byte("h"), marker}},
		{{[]byte{}, []byte("empty-key")}, {[]byte("b"), []byte("vb")}, {[]byte("d"), []byte("vd")}},
		{{[]byte("b"), []byte("vb")}, {[]byte("d"), []byte("vd")}, {append([]byte("z"), big...), []byte("vz")}},
		{{marker, []byte("vm")}, {append(append([]byte{}, marker...), 0x91), marker}},
	}
}

func govcProbes() [][]byte {
	return [][]byte{{}, []byte("a"), []byte("b"), []byte("c"), []byte("d"), []byte("e"), []byte("f"), []byte("h"), []byte("y"), []byte("zz"), {0x91, 0x8d, 0x4c}, {0xff}}
}

func TestReplay_table_model(t *testing.T) {
	loaders := map[string]func() IndexLoader{
		"slice":    func() IndexLoader { return &SliceKeyIndexLoader{ReadBufferSize: 4096} },
		"skiplist": func() IndexLoader { return &SkipListIndexLoader{KeyComparator: skiplist.BytesComparator{}, ReadBufferSize: 4096} },
		"disk":     func() IndexLoader { return &DiskIndexLoader{} },
	}
	cases := govcTableCases()
	for ci := 0; ci < 2*len(cases); ci++ {
		kvs := cases[ci/2]
		dir, err := os.MkdirTemp("", "govc_c03")
		if err != nil {
			t.Fatal(err)
		}
		if ci%2 == 0 {
			w, err := NewSSTableStreamWriter(WriteBasePath(dir), WithKeyComparator(skiplist.BytesComparator{}))
			if err != nil {
				t.Fatal(err)
			}
			if err := w.Open(); err != nil {
				t.Fatal(err)
			}
			for _, kv := range kvs {
				if err := w.WriteNext(kv.k, kv.v); err != nil {
					t.Fatal(err)
				}
			}
			if err := w.Close(); err != nil {
				t.Fatal(err)
			}
		} else {
			// the same sequence through the skip list writer
			m := skiplist.NewSkipListMap[[]byte, []byte](skiplist.BytesComparator{})
			for _, kv := range kvs {
				m.Insert(kv.k, kv.v)
			}
			w, err := NewSSTableSimpleWriter(WriteBasePath(dir), WithKeyComparator(skiplist.BytesComparator{}))
			if err != nil {
				t.Fatal(err)
			}
			func() {
				defer func() {
					if r := recover(); r != nil {
						t.Fatalf("REPRODUCED: table %d: writing a skip list of %d entries panicked: %v", ci, len(kvs), r)
					}
				}()
				if err := w.WriteSkipListMap(m); err != nil {
					t.Fatalf("REPRODUCED: table %d: writing a skip list of %d entries failed: %v", ci, len(kvs), err)
				}
			}()
		}
		for name, mk := range loaders {
			r, err := NewSSTableReader(ReadBasePath(dir), ReadWithKeyComparator(skiplist.BytesComparator{}), ReadIndexLoader(mk()))
			if err != nil {
				t.Fatalf("REPRODUCED: table %d loader %s: cannot open: %v", ci, name, err)
			}
			fail := func(format string, a ...any) {
				var ks []string
				for _, kv := range kvs {
					k := kv.k
					if len(k) > 8 {
						k = append(append([]byte{}, k[:8]...), '~')
					}
					ks = append(ks, fmt.Sprintf("%q", k))
				}
				t.Fatalf("REPRODUCED: table %d (keys %v) loader %s: %s", ci, ks, name, fmt.Sprintf(format, a...))
			}
			for round := 0; round < 2; round++ {
				for _, p := range append(govcProbes(), func() [][]byte {
					var ks [][]byte
					for _, kv := range kvs {
						ks = append(ks, kv.k)
					}
					return ks
				}()...) {
					var want *govcKV
					for i := range kvs {
						if bytes.Equal(kvs[i].k, p) {
							want = &kvs[i]
						}
					}
					c, err := r.Contains(p)
					if err != nil || c != (want != nil) {
						fail("round %d: Contains(%q) = (%v, %v), written=%v", round, p, c, err, want != nil)
					}
					v, err := r.Get(p)
					switch {
					case want == nil && !errors.Is(err, NotFound):
						fail("round %d: Get(%q) = (%q, %v) for an unwritten key", round, p, v, err)
					case want != nil && (err != nil || !bytes.Equal(v, want.v)):
						fail("round %d: Get(%q) = (%q, %v), written %q", round, p, v, err, want.v)
					}
					it, err := r.ScanStartingAt(p)
					if err != nil {
						fail("ScanStartingAt(%q) failed: %v", p, err)
					}
					gk, _, err := govcDrainKV(it)
					if err != nil {
						fail("ScanStartingAt(%q) iteration failed: %v", p, err)
					}
					var wk [][]byte
					for _, kv := range kvs {
						if bytes.Compare(kv.k, p) >= 0 {
							wk = append(wk, kv.k)
						}
					}
					if !govcSameKeys(gk, wk) {
						fail("round %d: ScanStartingAt(%q) delivered %d keys %q, want %d keys", round, p, len(gk), govcShort(gk), len(wk))
					}
					for _, hi := range govcProbes() {
						it, err := r.ScanRange(p, hi)
						if bytes.Compare(p, hi) > 0 {
							if err == nil {
								fail("ScanRange(%q,%q) with inverted bounds was not rejected", p, hi)
							}
							continue
						}
						if err != nil {
							fail("ScanRange(%q,%q) failed: %v", p, hi, err)
						}
						gk, _, err := govcDrainKV(it)
						if err != nil {
							fail("ScanRange(%q,%q) iteration failed: %v", p, hi, err)
						}
						var wk [][]byte
						for _, kv := range kvs {
							if bytes.Compare(kv.k, p) >= 0 && bytes.Compare(kv.k, hi) <= 0 {
								wk = append(wk, kv.k)
							}
						}
						if !govcSameKeys(gk, wk) {
							fail("round %d: ScanRange(%q,%q) delivered %d keys %q, want %d keys", round, p, hi, len(gk), govcShort(gk), len(wk))
						}
					}
				}
			}
			it, err := r.Scan()
			if err != nil {
				fail("Scan failed: %v", err)
			}
			gk, gv, err := govcDrainKV(it)
			if err != nil || len(gk) != len(kvs) {
				fail("Scan delivered %d of %d records (err %v)", len(gk), len(kvs), err)
			}
			for i := range gk {
				if !bytes.Equal(gk[i], kvs[i].k) || !bytes.Equal(gv[i], kvs[i].v) {
					fail("Scan record %d = (%q,%q), written (%q,%q)", i, govcShort([][]byte{gk[i]}), gv[i], govcShort([][]byte{kvs[i].k}), kvs[i].v)
				}
			}
			r.Close()
		}
		os.RemoveAll(dir)
	}
}

func govcShort(ks [][]byte) []string {
	var out []string
	for _, k := range ks {
		if len(k) > 8 {
			out = append(out, fmt.Sprintf("%q~", k[:8]))
		} else {
			out = append(out, fmt.Sprintf("%q", k))
		}
	}
	return out
}

func govcSameKeys(a, b [][]byte) bool {
	if len(a) != len(b) {
		return false
	}
	for i := range a {
		if !bytes.Equal(a[i], b[i]) {
			return false
		}
	}
	return true
}

func govcDrainKV(it SSTableIteratorI) (keys, vals [][]byte, err error) {
	for {
		k, v, e := it.Next()
		if errors.Is(e, Done) {
			return keys, vals, nil
		}
		if e != nil {
			return keys, vals, e
		}
		keys, vals = append(keys, append([]byte{}, k...)), append(vals, v)
		if len(keys) > 64 {
			return keys, vals, errors.New("runaway iterator")
		}
	}
}
