package sstables

// Bounded stand-in for property C18 (table reader, memory-mapped reader): one shared reader, G goroutines issuing random
// Get / Contains / ScanRange / ScanStartingAt calls (table reader, default index loader, every data compression type) and
// random ReadNextAt / SeekNext calls (memory-mapped RecordIO reader); every result is compared with the answer the same call
// gives when executed alone. Runs under the Go race detector (the driver name ends in _race).

import (
	"bytes"
	"errors"
	"fmt"
	"math/rand"
	"os"
	"path/filepath"
	"sync"
	"testing"

	"github.com/thomasjungblut/go-sstables/recordio"
	"github.com/thomasjungblut/go-sstables/skiplist"
)

func govcScanKeys(it SSTableIteratorI, max int) (string, error) {
	var b bytes.Buffer
	for i := 0; i < max; i++ {
		k, v, err := it.Next()
		if errors.Is(err, Done) {
			break
		}
		if err != nil {
			return "", err
		}
		fmt.Fprintf(&b, "%s=%s;", k, v)
	}
	return b.String(), nil
}

func TestReplay_concurrent_readers_race(t *testing.T) {
	goroutines, iters := 8, 150
	if os.Getenv("GOVC_TIER") == "thorough" {
		iters = 1500
	}
	seed := int64(1)
	for _, comp := range []int{recordio.CompressionTypeNone, recordio.CompressionTypeGZIP, recordio.CompressionTypeSnappy, recordio.CompressionTypeLzw} {
		dir, err := os.MkdirTemp("", "govc_c18")
		if err != nil {
			t.Fatal(err)
		}
		w, err := NewSSTableStreamWriter(WriteBasePath(dir), WithKeyComparator(skiplist.BytesComparator{}), DataCompressionType(comp))
		if err != nil {
			t.Fatal(err)
		}
		if err := w.Open(); err != nil {
			t.Fatal(err)
		}
		n := 120
		keys := make([][]byte, n)
		for i := 0; i < n; i++ {
			keys[i] = []byte(fmt.Sprintf("key-%04d", i*2))
			if err := w.WriteNext(keys[i], bytes.Repeat([]byte{byte('a' + i%26)}, 1+i%40)); err != nil {
				t.Fatal(err)
			}
		}
		if err := w.Close(); err != nil {
			t.Fatal(err)
		}
		r, err := NewSSTableReader(ReadBasePath(dir), ReadWithKeyComparator(skiplist.BytesComparator{}))
		if err != nil {
			t.Fatal(err)
		}
		probe := func(i int) []byte { return []byte(fmt.Sprintf("key-%04d", i)) } // odd numbers are absent
		// what each call answers when executed alone
		call := func(kind, i int) string {
			switch kind {
			case 0:
				v, err := r.Get(probe(i))
				return fmt.Sprintf("get %q %v", v, err)
			case 1:
				c, err := r.Contains(probe(i))
				return fmt.Sprintf("contains %v %v", c, err)
			case 2:
				it, err := r.ScanRange(probe(i), probe(i+9))
				if err != nil {
					return "scanrange error " + err.Error()
				}
				s, err := govcScanKeys(it, 20)
				return fmt.Sprintf("scanrange %s %v", s, err)
			default:
				it, err := r.ScanStartingAt(probe(i))
				if err != nil {
					return "scanfrom error " + err.Error()
				}
				s, err := govcScanKeys(it, 4)
				return fmt.Sprintf("scanfrom %s %v", s, err)
			}
		}
		oracle := map[[2]int]string{}
		for kind := 0; kind < 4; kind++ {
			for i := 0; i < 2*n+4; i++ {
				oracle[[2]int{kind, i}] = call(kind, i)
			}
		}
		var wg sync.WaitGroup
		errs := make(chan string, goroutines)
		for g := 0; g < goroutines; g++ {
			wg.Add(1)
			go func(g int) {
				defer wg.Done()
				defer func() {
					if p := recover(); p != nil {
						errs <- fmt.Sprintf("panic in goroutine %d: %v", g, p)
					}
				}()
				rng := rand.New(rand.NewSource(seed + int64(g)))
				for it := 0; it < iters; it++ {
					kind, i := rng.Intn(4), rng.Intn(2*n+4)
					if got := call(kind, i); got != oracle[[2]int{kind, i}] {
						errs <- fmt.Sprintf("compression %d, goroutine %d: call (%d,%d) answered %.120q concurrently, %.120q alone", comp, g, kind, i, got, oracle[[2]int{kind, i}])
						return
					}
				}
			}(g)
		}
		wg.Wait()
		close(errs)
		for e := range errs {
			t.Fatalf("REPRODUCED: table reader: %s", e)
		}
		r.Close()

		// the memory-mapped RecordIO reader on the data file of the same table
		mr, err := recordio.NewMemoryMappedReaderWithPath(filepath.Join(dir, DataFileName))
		if err != nil {
			t.Fatal(err)
		}
		if err := mr.Open(); err != nil {
			t.Fatal(err)
		}
		size := int(mr.Size())
		mcall := func(kind, off int) string {
			if kind == 0 {
				o, rec, err := mr.SeekNext(uint64(off))
				return fmt.Sprintf("seek %d %q %v", o, rec, err != nil)
			}
			o, rec, err := mr.SeekNext(uint64(off)) // find a record start, then read it positionally
			if err != nil {
				return "read eof"
			}
			rec2, err := mr.ReadNextAt(o)
			return fmt.Sprintf("read %d %v %v", o, bytes.Equal(rec, rec2), err)
		}
		moracle := map[[2]int]string{}
		for kind := 0; kind < 2; kind++ {
			for off := 0; off <= size; off += 3 {
				moracle[[2]int{kind, off}] = mcall(kind, off)
			}
		}
		errs = make(chan string, goroutines)
		for g := 0; g < goroutines; g++ {
			wg.Add(1)
			go func(g int) {
				defer wg.Done()
				defer func() {
					if p := recover(); p != nil {
						errs <- fmt.Sprintf("panic in goroutine %d: %v", g, p)
					}
				}()
				rng := rand.New(rand.NewSource(seed + 100 + int64(g)))
				for it := 0; it < iters; it++ {
					kind, off := rng.Intn(2), 3*rng.Intn(size/3+1)
					if got := mcall(kind, off); got != moracle[[2]int{kind, off}] {
						errs <- fmt.Sprintf("compression %d, goroutine %d: mmap call (%d,%d) answered %.120q concurrently, %.120q alone", comp, g, kind, off, got, moracle[[2]int{kind, off}])
						return
					}
				}
			}(g)
		}
		wg.Wait()
		close(errs)
		for e := range errs {
			t.Fatalf("REPRODUCED: memory-mapped reader: %s", e)
		}
		mr.Close()
		os.RemoveAll(dir)
	}
}
