package sstables

// Replay driver for ScanReduceLatestWins / SkipTombstones (C06, C08): every context vector of length 1..4 over {0..3}
// (duplicates allowed) - the value returned must be the one of a maximal context.

import (
	"fmt"
	"testing"
)

func TestReplay_scan_reduce(t *testing.T) {
	for n := 1; n <= 4; n++ {
		total := 1
		for i := 0; i < n; i++ {
			total *= 4
		}
		for code := 0; code < total; code++ {
			ctx := make([]int, n)
			vals := make([][]byte, n)
			c, maxCtx := code, -1
			for i := range ctx {
				ctx[i] = c % 4
				c /= 4
				vals[i] = []byte(fmt.Sprintf("v%d", i))
				if ctx[i] > maxCtx {
					maxCtx = ctx[i]
				}
			}
			k, v := ScanReduceLatestWins([]byte("k"), vals, ctx)
			ok := false
			for i := range ctx {
				if ctx[i] == maxCtx && string(v) == string(vals[i]) {
					ok = true
				}
			}
			if string(k) != "k" || !ok {
				t.Fatalf("REPRODUCED: contexts %v: reduction returned key %q value %q, a value of the maximal context %d was expected", ctx, k, v, maxCtx)
			}
		}
	}
}
