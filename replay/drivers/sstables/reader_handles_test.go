package sstables

// Bounded stand-in / replay driver for property C19 (table readers): descriptors and mappings under the table directory are
// counted through /proc/self/fd and /proc/self/maps. After Close of a table reader none may remain, whatever was done with it:
// complete scans, abandoned scans, range scans, failed scans on a data file that was shortened after the reader was opened.

import (
	"fmt"
	"os"
	"path/filepath"
	"strings"
	"testing"

	"github.com/thomasjungblut/go-sstables/skiplist"
)

func govcHandlesUnder(dir string) (fds, maps int) {
	es, _ := os.ReadDir("/proc/self/fd")
	for _, e := range es {
		if l, err := os.Readlink(filepath.Join("/proc/self/fd", e.Name())); err == nil && strings.HasPrefix(l, dir) {
			fds++
		}
	}
	if b, err := os.ReadFile("/proc/self/maps"); err == nil {
		for _, line := range strings.Split(string(b), "\n") {
			if strings.Contains(line, dir) {
				maps++
			}
		}
	}
	return
}

func TestReplay_reader_handles(t *testing.T) {
	loaders := map[string]func() IndexLoader{
		"slice": func() IndexLoader { return &SliceKeyIndexLoader{ReadBufferSize: 4096} },
		"disk":  func() IndexLoader { return &DiskIndexLoader{} },
	}
	for name, mk := range loaders {
		for scenario := 0; scenario < 6; scenario++ {
			dir, err := os.MkdirTemp("", "govc_c19")
			if err != nil {
				t.Fatal(err)
			}
			w, err := NewSSTableStreamWriter(WriteBasePath(dir), WithKeyComparator(skiplist.BytesComparator{}))
			if err != nil {
				t.Fatal(err)
			}
			if err := w.Open(); err != nil {
				t.Fatal(err)
			}
			for i := 0; i < 5; i++ {
				if err := w.WriteNext([]byte(fmt.Sprintf("key-%d", i)), []byte(fmt.Sprintf("value-%d", i))); err != nil {
					t.Fatal(err)
				}
			}
			if err := w.Close(); err != nil {
				t.Fatal(err)
			}
			if f, m := govcHandlesUnder(dir); f != 0 || m != 0 {
				t.Fatalf("REPRODUCED: loader %s: %d descriptors and %d mappings under the table directory after the writer was closed", name, f, m)
			}
			r, err := NewSSTableReader(ReadBasePath(dir), ReadWithKeyComparator(skiplist.BytesComparator{}), ReadIndexLoader(mk()))
			if err != nil {
				t.Fatal(err)
			}
			what := ""
			switch scenario {
			case 0:
				what = "no scan"
			case 1:
				what = "three complete scans"
				for k := 0; k < 3; k++ {
					it, err := r.Scan()
					if err != nil {
						t.Fatal(err)
					}
					for {
						if _, _, err := it.Next(); err != nil {
							break
						}
					}
				}
			case 2:
				what = "three abandoned scans"
				for k := 0; k < 3; k++ {
					it, err := r.Scan()
					if err != nil {
						t.Fatal(err)
					}
					it.Next()
				}
			case 3:
				what = "range scans and lookups"
				it, _ := r.ScanStartingAt([]byte("key-2"))
				it.Next()
				it, _ = r.ScanRange([]byte("key-1"), []byte("key-3"))
				it.Next()
				r.Get([]byte("key-4"))
				r.Contains([]byte("nope"))
			case 4:
				what = "scans that fail because the data file was shortened after the reader was opened"
				if err := os.Truncate(filepath.Join(dir, DataFileName), 4); err != nil {
					t.Fatal(err)
				}
				for k := 0; k < 3; k++ {
					if _, err := r.Scan(); err == nil {
						t.Fatalf("scan of a table without a complete data file header succeeded")
					}
				}
			case 5:
				what = "close twice"
				it, _ := r.Scan()
				it.Next()
				r.Close()
			}
			_ = r.Close()
			if f, m := govcHandlesUnder(dir); f != 0 || m != 0 {
				t.Fatalf("REPRODUCED: loader %s, %s: %d descriptors and %d mappings under the table directory remain after the reader's Close", name, what, f, m)
			}
			os.RemoveAll(dir)
		}
	}
}
