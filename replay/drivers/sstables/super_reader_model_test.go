package sstables

// Bounded stand-in / replay driver for property C08: every list of 1..3 tables over the keys {"", "a", "b"} where each
// table holds each key as absent / value / tombstone(nil) is written with the real stream writer, opened with the real
// reader and stacked; Get, Contains, Scan, ScanStartingAt and ScanRange of the stacked reader and the output of
// MergeCompact with the latest-wins reduction are compared with the map obtained by applying the tables oldest to newest.
// Bound: <= 3 tables x 3 keys x 3 states (tables with no key are skipped as the writer cannot produce them through this API).

import (
	"bytes"
	"errors"
	"fmt"
	"os"
	"path/filepath"
	"testing"

	"github.com/thomasjungblut/go-sstables/skiplist"
)

var govcKeys = [][]byte{{}, []byte("a"), []byte("b")}

// state per key: 0 absent, 1 value, 2 tombstone
func govcWriteTable(t *testing.T, dir string, states [3]int, tag string) SSTableReaderI {
	if err := os.MkdirAll(dir, 0o755); err != nil {
		t.Fatal(err)
	}
	w, err := NewSSTableStreamWriter(WriteBasePath(dir), WithKeyComparator(skiplist.BytesComparator{}))
	if err != nil {
		t.Fatal(err)
	}
	if err := w.Open(); err != nil {
		t.Fatal(err)
	}
	for i, k := range govcKeys {
		switch states[i] {
		case 1:
			if err := w.WriteNext(k, []byte(fmt.Sprintf("%s-%q", tag, k))); err != nil {
				t.Fatal(err)
			}
		case 2:
			if err := w.WriteNext(k, nil); err != nil {
				t.Fatal(err)
			}
		}
	}
	if err := w.Close(); err != nil {
		t.Fatal(err)
	}
	r, err := NewSSTableReader(ReadBasePath(dir), ReadWithKeyComparator(skiplist.BytesComparator{}))
	if err != nil {
		t.Fatalf("cannot open table %v: %v", states, err)
	}
	return r
}

func govcDrain(it SSTableIteratorI) (keys, vals [][]byte, err error) {
	for {
		k, v, e := it.Next()
		if errors.Is(e, Done) {
			return keys, vals, nil
		}
		if e != nil {
			return keys, vals, e
		}
		keys, vals = append(keys, k), append(vals, v)
		if len(keys) > 32 {
			return keys, vals, errors.New("runaway iterator")
		}
	}
}

func TestReplay_super_reader_model(t *testing.T) {
	root, err := os.MkdirTemp("", "govc_c08")
	if err != nil {
		t.Fatal(err)
	}
	defer os.RemoveAll(root)
	var tables [][3]int
	for a := 0; a < 3; a++ {
		for b := 0; b < 3; b++ {
			for c := 0; c < 3; c++ {
				if a+b+c > 0 {
					tables = append(tables, [3]int{a, b, c})
				}
			}
		}
	}
	n := 0
	check := func(stack [][3]int) {
		n++
		dir := filepath.Join(root, fmt.Sprintf("s%d", n))
		var readers []SSTableReaderI
		for ti, st := range stack {
			readers = append(readers, govcWriteTable(t, filepath.Join(dir, fmt.Sprintf("t%d", ti)), st, fmt.Sprintf("t%d", ti)))
		}
		defer os.RemoveAll(dir)
		// reference map
		type ent struct {
			present bool
			val     []byte
		}
		ref := map[string]ent{}
		for ti, st := range stack {
			for i, k := range govcKeys {
				switch st[i] {
				case 1:
					ref[string(k)] = ent{true, []byte(fmt.Sprintf("t%d-%q", ti, k))}
				case 2:
					ref[string(k)] = ent{true, nil}
				}
			}
		}
		sr := NewSuperSSTableReader(readers, skiplist.BytesComparator{})
		defer sr.Close()
		fail := func(format string, a ...any) {
			t.Fatalf("REPRODUCED: tables %v (per key \"\",a,b: 0 absent 1 value 2 tombstone, oldest first): %s", stack, fmt.Sprintf(format, a...))
		}
		for _, k := range govcKeys {
			e := ref[string(k)]
			v, err := sr.Get(k)
			switch {
			case !e.present && !errors.Is(err, NotFound):
				fail("Get(%q) = (%q, %v), the key is in no table", k, v, err)
			case e.present && (err != nil || !bytes.Equal(v, e.val) || (v == nil) != (e.val == nil)):
				fail("Get(%q) = (%q, %v), newest table says %q (tombstone=%v)", k, v, err, e.val, e.val == nil)
			}
			c, err := sr.Contains(k)
			if err != nil || c != e.present {
				fail("Contains(%q) = (%v, %v), want %v", k, c, err, e.present)
			}
		}
		want := func(lo, hi []byte, useLo, useHi bool) (ks, vs [][]byte) {
			for _, k := range govcKeys {
				e := ref[string(k)]
				if !e.present || e.val == nil {
					continue
				}
				if useLo && bytes.Compare(k, lo) < 0 {
					continue
				}
				if useHi && bytes.Compare(k, hi) > 0 {
					continue
				}
				ks, vs = append(ks, k), append(vs, e.val)
			}
			return
		}
		cmp := func(what string, it SSTableIteratorI, err error, wk, wv [][]byte) {
			if err != nil {
				fail("%s failed: %v", what, err)
			}
			gk, gv, err := govcDrain(it)
			if err != nil {
				fail("%s iteration failed: %v", what, err)
			}
			if len(gk) != len(wk) {
				fail("%s delivered keys %q values %q, want keys %q values %q", what, gk, gv, wk, wv)
			}
			for i := range gk {
				if !bytes.Equal(gk[i], wk[i]) || !bytes.Equal(gv[i], wv[i]) {
					fail("%s delivered keys %q values %q, want keys %q values %q", what, gk, gv, wk, wv)
				}
			}
		}
		it, err := sr.Scan()
		wk, wv := want(nil, nil, false, false)
		cmp("Scan", it, err, wk, wv)
		for _, lo := range govcKeys {
			it, err := sr.ScanStartingAt(lo)
			wk, wv := want(lo, nil, true, false)
			cmp(fmt.Sprintf("ScanStartingAt(%q)", lo), it, err, wk, wv)
			for _, hi := range govcKeys {
				if bytes.Compare(lo, hi) > 0 {
					continue
				}
				it, err := sr.ScanRange(lo, hi)
				wk, wv := want(lo, hi, true, true)
				cmp(fmt.Sprintf("ScanRange(%q,%q)", lo, hi), it, err, wk, wv)
			}
		}
	}
	limit := 3
	if os.Getenv("GOVC_TIER") != "thorough" {
		limit = 2
	}
	for _, a := range tables {
		check([][3]int{a})
		for bi, b := range tables {
			if limit < 3 && (bi+a[0]+a[1]+a[2])%3 != 0 {
				continue // quick tier: one third of the pairs
			}
			check([][3]int{a, b})
			if limit >= 3 {
				for _, c := range tables {
					if (a[0]+b[0]+c[0])%2 == 0 { // thin out: one third of the triples
						check([][3]int{a, b, c})
					}
				}
			}
		}
	}
}
