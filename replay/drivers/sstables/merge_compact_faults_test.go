package sstables

// Replay driver for (SSTableMerger).Merge / MergeCompact (property C11): a failure is injected at every read position
// of every input iterator and at every write position of the output writer; the merge must return an error, and
// without a failure the writer must have received exactly the reduced records.

import (
	"errors"
	"fmt"
	"testing"

	"github.com/thomasjungblut/go-sstables/skiplist"
)

type govcFaultIter struct {
	keys, vals [][]byte
	errAt      int
	pos        int
}

var errGovcRead = errors.New("injected read failure")
var errGovcWrite = errors.New("injected write failure")

func (s *govcFaultIter) Next() ([]byte, []byte, error) {
	i := s.pos
	s.pos++
	if i == s.errAt {
		return nil, nil, errGovcRead
	}
	if i >= len(s.keys) {
		return nil, nil, Done
	}
	return s.keys[i], s.vals[i], nil
}

type govcFaultWriter struct {
	errAt int
	n     int
	keys  [][]byte
}

func (w *govcFaultWriter) Open() error  { return nil }
func (w *govcFaultWriter) Close() error { return nil }
func (w *govcFaultWriter) WriteNext(k, v []byte) error {
	i := w.n
	w.n++
	if i == w.errAt {
		return errGovcWrite
	}
	w.keys = append(w.keys, k)
	return nil
}

func govcTables() [][][2][]byte {
	b := func(s string) []byte { return []byte(s) }
	return [][][2][]byte{
		{{b("a"), b("1")}, {b("c"), b("3")}, {b("e"), b("5")}},
		{{b("b"), b("2")}, {b("c"), b("33")}, {b("f"), b("6")}},
		{{b("c"), b("333")}, {b("g"), b("7")}},
	}
}

func govcRun(compact bool, failTable, failAt, failWrite int) (error, *govcFaultWriter) {
	var its []SSTableMergeIteratorContext
	for ti, tab := range govcTables() {
		it := &govcFaultIter{errAt: -1}
		for _, kv := range tab {
			it.keys = append(it.keys, kv[0])
			it.vals = append(it.vals, kv[1])
		}
		if ti == failTable {
			it.errAt = failAt
		}
		its = append(its, NewMergeIteratorContext(ti, it))
	}
	w := &govcFaultWriter{errAt: failWrite}
	m := NewSSTableMerger(skiplist.BytesComparator{})
	if compact {
		return m.MergeCompact(its, w, ScanReduceLatestWins), w
	}
	return m.Merge(its, w), w
}

func TestReplay_merge_compact_faults(t *testing.T) {
	for _, compact := range []bool{true, false} {
		name := map[bool]string{true: "MergeCompact", false: "Merge"}[compact]
		err, w := govcRun(compact, -1, -1, -1)
		if err != nil {
			t.Fatalf("%s without faults failed: %v", name, err)
		}
		total := w.n
		for ti, tab := range govcTables() {
			for at := 0; at <= len(tab); at++ {
				err, w := govcRun(compact, ti, at, -1)
				if err == nil {
					t.Fatalf("REPRODUCED: %s returned nil although input %d failed at its read %d (writer got %d of %d records): %s", name, ti, at, len(w.keys), total, fmt.Sprint(w.keys))
				}
			}
		}
		for at := 0; at < total; at++ {
			err, _ := govcRun(compact, -1, -1, at)
			if err == nil {
				t.Fatalf("REPRODUCED: %s returned nil although WriteNext failed at write %d of %d", name, at, total)
			}
		}
	}
}
