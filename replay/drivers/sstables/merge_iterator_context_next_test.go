package sstables

// Replay driver for the contract of (SSTableMergeIteratorContext).Next (properties C11, C08).
// Runs the real adapter over a stub iterator whose i-th call returns a chosen error and checks the contract clauses.

import (
	"errors"
	"fmt"
	"io"
	"testing"

	"github.com/thomasjungblut/go-sstables/pq"
)

type govcStubIter struct {
	keys, vals [][]byte
	errAt      int
	err        error
	pos        int
}

func (s *govcStubIter) Next() ([]byte, []byte, error) {
	i := s.pos
	s.pos++
	if i == s.errAt {
		return nil, nil, s.err
	}
	if i >= len(s.keys) {
		return nil, nil, Done
	}
	return s.keys[i], s.vals[i], nil
}

func TestReplay_merge_iterator_context_next(t *testing.T) {
	ioErr := errors.New("injected read failure")
	errs := []error{ioErr, io.ErrUnexpectedEOF, fmt.Errorf("wrapped: %w", ioErr), Done, fmt.Errorf("wrapped done: %w", Done)}
	keys := [][]byte{{1}, {2}, {3}}
	vals := [][]byte{{10}, {20}, {30}}
	for _, e := range errs {
		for at := 0; at <= len(keys); at++ {
			it := &govcStubIter{keys: keys, vals: vals, errAt: at, err: e}
			ctx := NewMergeIteratorContext(7, it)
			for i := 0; i <= at; i++ {
				k, v, err := ctx.Next()
				switch {
				case i < at:
					if err != nil || string(k) != string(keys[i]) || string(v) != string(vals[i]) {
						t.Fatalf("REPRODUCED: [ok-passes-through] call %d returned (%v,%v,%v), want (%v,%v,nil)", i, k, v, err, keys[i], vals[i])
					}
				case errors.Is(e, Done):
					if err != pq.Done {
						t.Fatalf("REPRODUCED: [done-maps-to-done] inner error %v at call %d gave %v, want pq.Done", e, i, err)
					}
				default:
					if err == nil || !errors.Is(err, e) {
						t.Fatalf("REPRODUCED: [error-propagates] inner iterator failed with %q at call %d but the adapter returned key=%v value=%v err=%v", e, i, k, v, err)
					}
				}
			}
		}
	}
}
