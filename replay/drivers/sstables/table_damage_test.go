package sstables

// Bounded stand-in / replay driver for property C09: tables with non-empty values are written under each compression type;
// the data file is then damaged (every byte offset x several replacement values, every truncation length, swapped records)
// and the table is opened with verify-on-load (default) and with verify-on-read (load check skipped). A value that is
// returned without error must be the one written; a panic counts as a failure.

import (
	"bytes"
	"errors"
	"fmt"
	"os"
	"path/filepath"
	"testing"

	"github.com/thomasjungblut/go-sstables/recordio"
	"github.com/thomasjungblut/go-sstables/skiplist"
)

type govcDKV struct{ k, v []byte }

func govcDamageTables() [][]govcDKV {
	marker := []byte{0x91, 0x8d, 0x4c}
	return [][]govcDKV{
		{{[]byte("a"), []byte("value-a")}, {[]byte("b"), []byte("value-bb")}, {[]byte("c"), []byte("value-ccc")}},
		{{[]byte("k1"), bytes.Repeat([]byte("xy"), 40)}, {[]byte("k2"), marker}, {[]byte("k3"), []byte("z")}},
		{{[]byte("a"), []byte("same")}, {[]byte("b"), []byte("same")}, {[]byte("c"), []byte("diff")}, {[]byte("d"), []byte("same")}},
		{{[]byte("only"), bytes.Repeat([]byte{0}, 33)}},
	}
}

func govcCopyDir(t *testing.T, from, to string) {
	es, err := os.ReadDir(from)
	if err != nil {
		t.Fatal(err)
	}
	for _, e := range es {
		b, err := os.ReadFile(filepath.Join(from, e.Name()))
		if err != nil {
			t.Fatal(err)
		}
		if err := os.WriteFile(filepath.Join(to, e.Name()), b, 0600); err != nil {
			t.Fatal(err)
		}
	}
}

// govcCheckDamaged opens the table in dir and reads everything; it fails the test if a wrong value comes back without an error.
func govcCheckDamaged(t *testing.T, dir string, kvs []govcDKV, onLoad bool, what string) {
	defer func() {
		if r := recover(); r != nil {
			t.Fatalf("REPRODUCED: %s: panic %v", what, r)
		}
	}()
	opts := []ReadOption{ReadBasePath(dir), ReadWithKeyComparator(skiplist.BytesComparator{})}
	if !onLoad {
		opts = append(opts, SkipHashCheckOnLoad(), EnableHashCheckOnReads())
	}
	r, err := NewSSTableReader(opts...)
	if err != nil {
		return // detected when opening
	}
	defer r.Close()
	for _, kv := range kvs {
		v, err := r.Get(kv.k)
		if err == nil && !bytes.Equal(v, kv.v) {
			t.Fatalf("REPRODUCED: %s: Get(%q) returned %q without error, written %q", what, kv.k, v, kv.v)
		}
	}
	for mode := 0; mode < 3; mode++ {
		var it SSTableIteratorI
		var err error
		switch mode {
		case 0:
			it, err = r.Scan()
		case 1:
			it, err = r.ScanStartingAt(kvs[0].k)
		default:
			it, err = r.ScanRange(kvs[0].k, kvs[len(kvs)-1].k)
		}
		if err != nil {
			continue
		}
		for i := 0; i < len(kvs)+2; i++ {
			k, v, err := it.Next()
			if err != nil {
				break // Done or detected
			}
			var want []byte
			found := false
			for _, kv := range kvs {
				if bytes.Equal(kv.k, k) {
					want, found = kv.v, true
				}
			}
			if !found || !bytes.Equal(v, want) {
				t.Fatalf("REPRODUCED: %s: scan (mode %d) delivered (%q, %q) without error, written value %q", what, mode, k, v, want)
			}
		}
	}
}

func TestReplay_table_damage(t *testing.T) {
	thorough := os.Getenv("GOVC_TIER") == "thorough"
	comps := []int{recordio.CompressionTypeNone, recordio.CompressionTypeSnappy}
	if thorough {
		comps = append(comps, recordio.CompressionTypeGZIP, recordio.CompressionTypeLzw)
	}
	repl := func(b byte) []byte {
		out := []byte{b ^ 0x01, b ^ 0x80, 0x00, 0xff, 0x91, 0x8d, 0x4c}
		if thorough {
			out = append(out, b^0x02, b^0x04, b^0x08, b^0x10, b^0x20, b^0x40, b+1, b-1)
		}
		return out
	}
	n := 0
	for ti, kvs := range govcDamageTables() {
		for _, comp := range comps {
			src, err := os.MkdirTemp("", "govc_c09src")
			if err != nil {
				t.Fatal(err)
			}
			w, err := NewSSTableStreamWriter(WriteBasePath(src), WithKeyComparator(skiplist.BytesComparator{}), DataCompressionType(comp))
			if err != nil {
				t.Fatal(err)
			}
			if err := w.Open(); err != nil {
				t.Fatal(err)
			}
			for _, kv := range kvs {
				if err := w.WriteNext(kv.k, kv.v); err != nil {
					t.Fatal(err)
				}
			}
			if err := w.Close(); err != nil {
				t.Fatal(err)
			}
			data, err := os.ReadFile(filepath.Join(src, DataFileName))
			if err != nil {
				t.Fatal(err)
			}
			work, err := os.MkdirTemp("", "govc_c09")
			if err != nil {
				t.Fatal(err)
			}
			govcCopyDir(t, src, work)
			dataPath := filepath.Join(work, DataFileName)
			try := func(damaged []byte, what string) {
				if err := os.WriteFile(dataPath, damaged, 0600); err != nil {
					t.Fatal(err)
				}
				for _, onLoad := range []bool{true, false} {
					n++
					govcCheckDamaged(t, work, kvs, onLoad, fmt.Sprintf("table %d, compression %d, verify-on-load=%v, %s", ti, comp, onLoad, what))
				}
			}
			try(data, "undamaged")
			for off := 0; off < len(data); off++ {
				for _, b := range repl(data[off]) {
					if b == data[off] {
						continue
					}
					d := append([]byte{}, data...)
					d[off] = b
					try(d, fmt.Sprintf("byte %d of %d: %#x -> %#x", off, len(data), data[off], b))
				}
			}
			for cut := 0; cut < len(data); cut++ {
				try(data[:cut], fmt.Sprintf("truncated to %d of %d bytes", cut, len(data)))
			}
			// swapped records: exchange the byte ranges of the first two records (boundaries from the index offsets)
			if len(kvs) >= 3 {
				idx, err := (&SliceKeyIndexLoader{ReadBufferSize: 4096}).Load(filepath.Join(src, IndexFileName), nil)
				if err == nil {
					i0, e0 := idx.Get(kvs[0].k)
					i1, e1 := idx.Get(kvs[1].k)
					i2, e2 := idx.Get(kvs[2].k)
					if e0 == nil && e1 == nil && e2 == nil {
						a, b, c := int(i0.Offset), int(i1.Offset), int(i2.Offset)
						d := append([]byte{}, data[:a]...)
						d = append(d, data[b:c]...)
						d = append(d, data[a:b]...)
						d = append(d, data[c:]...)
						try(d, "first two records swapped")
					}
				}
			}
			os.RemoveAll(src)
			os.RemoveAll(work)
		}
	}
	_ = errors.New
	t.Logf("table_damage: %d damaged tables read", n)
}
