package sstables

// Replay driver for (*SSTableStreamWriter).WriteNext (property C15): key sequences over a small alphabet (including the
// empty key) are offered to the real writer while the data append or the index append of a chosen call fails
// (failing sub-writers injected in place of the real ones). After every call the writer's observable state is compared
// with a reference model: accepted pairs, last key, MinKey, counters, bloom filter additions.

import (
	"bytes"
	"errors"
	"fmt"
	"hash/fnv"
	"os"
	"testing"

	"github.com/thomasjungblut/go-sstables/recordio"
	rProto "github.com/thomasjungblut/go-sstables/recordio/proto"
	"github.com/thomasjungblut/go-sstables/skiplist"
	"google.golang.org/protobuf/proto"
)

type govcFailData struct {
	recordio.WriterI
	failAt, n int
}

func (w *govcFailData) Write(r []byte) (uint64, error) {
	i := w.n
	w.n++
	if i == w.failAt {
		return 0, errors.New("injected data append failure")
	}
	return w.WriterI.Write(r)
}

type govcFailIndex struct {
	rProto.WriterI
	failAt, n int
}

func (w *govcFailIndex) Write(m proto.Message) (uint64, error) {
	i := w.n
	w.n++
	if i == w.failAt {
		return 0, errors.New("injected index append failure")
	}
	return w.WriterI.Write(m)
}

func TestReplay_stream_writer_writenext(t *testing.T) {
	alphabet := [][]byte{{}, []byte("a"), []byte("ab"), []byte("b")}
	var seqs [][]int
	var gen func(cur []int, n int)
	gen = func(cur []int, n int) {
		if n == 0 {
			seqs = append(seqs, append([]int(nil), cur...))
			return
		}
		for i := range alphabet {
			gen(append(cur, i), n-1)
		}
	}
	for n := 1; n <= 3; n++ {
		gen(nil, n)
	}
	for _, seq := range seqs {
		for failData := -1; failData < len(seq); failData++ {
			for failIndex := -1; failIndex < len(seq); failIndex++ {
				if failData >= 0 && failIndex >= 0 {
					continue
				}
				if msg := govcRunWriter(t, alphabet, seq, failData, failIndex); msg != "" {
					t.Fatalf("REPRODUCED: keys %v failData=%d failIndex=%d: %s", seq, failData, failIndex, msg)
				}
			}
		}
	}
}

func govcRunWriter(t *testing.T, alphabet [][]byte, seq []int, failData, failIndex int) string {
	dir, err := os.MkdirTemp("", "govc_writer")
	if err != nil {
		t.Fatal(err)
	}
	defer os.RemoveAll(dir)
	w, err := NewSSTableStreamWriter(WriteBasePath(dir), WithKeyComparator(skiplist.BytesComparator{}))
	if err != nil {
		t.Fatal(err)
	}
	if err := w.Open(); err != nil {
		t.Fatal(err)
	}
	fd := &govcFailData{WriterI: w.dataWriter, failAt: failData}
	fi := &govcFailIndex{WriterI: w.indexWriter, failAt: failIndex}
	w.dataWriter, w.indexWriter = fd, fi
	var accepted [][]byte
	nulls := 0
	for step, ki := range seq {
		key := append([]byte(nil), alphabet[ki]...)
		var val []byte
		if step%2 == 0 {
			val = []byte(fmt.Sprintf("v%d", step))
		} else {
			nulls0 := nulls
			_ = nulls0
		}
		mustReject := len(accepted) > 0 && bytes.Compare(accepted[len(accepted)-1], key) >= 0
		dataCalls, indexCalls := fd.n, fi.n
		err := w.WriteNext(key, val)
		if mustReject {
			if err == nil {
				return fmt.Sprintf("step %d: key %q is not greater than the last accepted key %q but was accepted", step, key, accepted[len(accepted)-1])
			}
			if fd.n != dataCalls || fi.n != indexCalls {
				return fmt.Sprintf("step %d: rejected key %q reached the files", step, key)
			}
		}
		if err == nil {
			accepted = append(accepted, key)
			if val == nil {
				nulls++
			}
		}
		// observable state against the model
		if len(accepted) == 0 {
			if w.lastKey != nil {
				return fmt.Sprintf("step %d (err=%v): nothing accepted yet but lastKey=%q", step, err, w.lastKey)
			}
		} else {
			if !bytes.Equal(w.lastKey, accepted[len(accepted)-1]) || w.lastKey == nil {
				return fmt.Sprintf("step %d (err=%v): lastKey=%q, last accepted key is %q", step, err, w.lastKey, accepted[len(accepted)-1])
			}
			if !bytes.Equal(w.metaData.MinKey, accepted[0]) {
				return fmt.Sprintf("step %d (err=%v): MinKey=%q, first accepted key is %q", step, err, w.metaData.MinKey, accepted[0])
			}
		}
		if int(w.metaData.NumRecords) != len(accepted) || int(w.metaData.NullValues) != nulls {
			return fmt.Sprintf("step %d (err=%v): NumRecords=%d NullValues=%d, model %d/%d", step, err, w.metaData.NumRecords, w.metaData.NullValues, len(accepted), nulls)
		}
		if err != nil && w.bloomFilter != nil && !mustReject {
			h := fnv.New64()
			_, _ = h.Write(key)
			seen := false
			for _, a := range accepted {
				if bytes.Equal(a, key) {
					seen = true
				}
			}
			if !seen && w.bloomFilter.Contains(h) && w.bloomFilter.N() != uint64(len(accepted)) {
				return fmt.Sprintf("step %d: failed write of %q was added to the bloom filter (N=%d, accepted %d)", step, key, w.bloomFilter.N(), len(accepted))
			}
		}
	}
	w.dataWriter, w.indexWriter = fd.WriterI, fi.WriterI
	if err := w.Close(); err != nil {
		return "close failed: " + err.Error()
	}
	if len(accepted) > 0 && !bytes.Equal(w.metaData.MaxKey, accepted[len(accepted)-1]) {
		return fmt.Sprintf("MaxKey=%q, last accepted key is %q", w.metaData.MaxKey, accepted[len(accepted)-1])
	}
	return ""
}
