package sstables

// Conformance of the trusted contracts in /verif/contracts-ext/stdlib.gvc (names after `conformance`): executable checks of the
// results those contracts state, on sampled inputs. They cannot show the `modifies` clauses (what a library call does NOT
// touch); those remain assumptions. A failure here means an assumption the proofs rest on is wrong.

import (
	"bytes"
	"errors"
	"fmt"
	"hash/crc32"
	"hash/crc64"
	"hash/fnv"
	"io"
	"os"
	"path/filepath"
	"sort"
	"strconv"
	"testing"

	"capnproto.org/go/capnp/v3/exp/bufferpool"
	"github.com/steakknife/bloomfilter"
	"github.com/thomasjungblut/go-sstables/recordio"
	"github.com/thomasjungblut/go-sstables/recordio/compressor"
	sproto "github.com/thomasjungblut/go-sstables/sstables/proto"
	"golang.org/x/exp/mmap"
	"google.golang.org/protobuf/proto"
)

func TestReplay_conformance_trusted(t *testing.T) {
	bad := func(format string, a ...any) { t.Fatalf("REPRODUCED: trusted contract violated: "+format, a...) }
	samples := [][]byte{nil, {}, {0}, []byte("abc"), bytes.Repeat([]byte{0x91, 0x8d, 0x4c}, 50), bytes.Repeat([]byte("x"), 5000)}

	// hash_write: Write takes everything and never fails; the sum is a function of the bytes written since creation; a fresh
	// CRC-64 / CRC-32 has sum 0
	for _, s := range samples {
		h1, h2 := crc64.New(crc64.MakeTable(crc64.ISO)), crc64.New(crc64.MakeTable(crc64.ISO))
		if h1.Sum64() != 0 || crc32.New(crc32.MakeTable(crc32.Castagnoli)).Sum32() != 0 {
			bad("hash_write: a fresh CRC has a non-zero sum")
		}
		n, err := h1.Write(s)
		if n != len(s) || err != nil {
			bad("hash_write: Write(%d bytes) = (%d, %v)", len(s), n, err)
		}
		h2.Write(s)
		if h1.Sum64() != h2.Sum64() || h1.Sum64() != h1.Sum64() {
			bad("hash_write: the sum is not a function of the bytes written")
		}
		f1, f2 := fnv.New64(), fnv.New64()
		f1.Write(s)
		f2.Write(s)
		if f1.Sum64() != f2.Sum64() {
			bad("hash_write: fnv sums differ for equal input")
		}
	}

	// bloom_add_contains: no false negatives
	bf, err := bloomfilter.NewOptimal(100, 0.01)
	if err != nil {
		t.Fatal(err)
	}
	for i := 0; i < 100; i++ {
		h := fnv.New64()
		h.Write([]byte(fmt.Sprintf("key-%d", i)))
		bf.Add(h)
	}
	for i := 0; i < 100; i++ {
		h := fnv.New64()
		h.Write([]byte(fmt.Sprintf("key-%d", i)))
		if !bf.Contains(h) {
			bad("bloom_add_contains: an added element is reported absent")
		}
	}

	// bufferpool_get
	pool := bufferpool.NewPool(1024, 20)
	for _, n := range []int{0, 1, 7, 1024, 4096, 100000} {
		b := pool.Get(n)
		if len(b) != n || b == nil {
			bad("bufferpool_get: Get(%d) returned len %d (nil=%v)", n, len(b), b == nil)
		}
		pool.Put(b)
	}

	// os_basics, mmap_readat, io_readfull
	dir, err := os.MkdirTemp("", "govc_conf")
	if err != nil || dir == "" {
		bad("os_basics: MkdirTemp failed: %v", err)
	}
	defer os.RemoveAll(dir)
	p := filepath.Join(dir, "f")
	content := []byte("0123456789")
	if err := os.WriteFile(p, content, 0600); err != nil {
		t.Fatal(err)
	}
	m, err := mmap.Open(p)
	if err != nil {
		t.Fatal(err)
	}
	if m.Len() != len(content) {
		bad("mmap_readat: Len() = %d for a file of %d bytes", m.Len(), len(content))
	}
	for off := int64(0); off <= int64(len(content))+2; off++ {
		for _, size := range []int{1, 3, 10, 16} {
			buf := make([]byte, size)
			n, err := m.ReadAt(buf, off)
			if n < 0 || n > size || (err == nil && n != size) || (n > 0 && off+int64(n) > int64(m.Len())) {
				bad("mmap_readat: ReadAt(len %d, off %d) = (%d, %v) on %d bytes", size, off, n, err, m.Len())
			}
			if n > 0 && !bytes.Equal(buf[:n], content[off:off+int64(n)]) {
				bad("mmap_readat: ReadAt returned other bytes than the file holds")
			}
		}
	}
	if err := m.Close(); err != nil {
		bad("mmap_readat: Close failed: %v", err)
	}
	for _, size := range []int{0, 4, 10, 12} {
		buf := make([]byte, size)
		n, err := io.ReadFull(bytes.NewReader(content), buf)
		if n < 0 || n > size || (err == nil) != (n == size) {
			bad("io_readfull: ReadFull(len %d) over 10 bytes = (%d, %v)", size, n, err)
		}
	}
	for _, n := range []string{"c", "a", "b"} {
		os.WriteFile(filepath.Join(dir, n), nil, 0600)
	}
	es, err := os.ReadDir(dir)
	if err != nil {
		t.Fatal(err)
	}
	var names []string
	for _, e := range es {
		names = append(names, e.Name())
	}
	if !sort.StringsAreSorted(names) {
		bad("os_basics: ReadDir is not sorted by name: %v", names)
	}
	if err := os.Rename(filepath.Join(dir, "a"), filepath.Join(dir, "z")); err != nil {
		bad("os_basics: Rename failed: %v", err)
	}
	if _, err := os.Stat(filepath.Join(dir, "a")); !errors.Is(err, os.ErrNotExist) {
		bad("os_basics: the old name still exists after Rename")
	}
	if filepath.Base(filepath.Join(dir, "sstable_000000000000001")) != "sstable_000000000000001" {
		bad("os_basics: Base(Join(d, n)) != n")
	}
	if v, err := strconv.ParseUint("000000000000012", 10, 64); err != nil || v != 12 {
		bad("os_basics: ParseUint of a padded generation number = (%d, %v)", v, err)
	}

	// compressor_roundtrip
	for code := recordio.CompressionTypeGZIP; code <= recordio.CompressionTypeLzw; code++ {
		var c compressor.CompressionI
		switch code {
		case recordio.CompressionTypeGZIP:
			c = &compressor.GzipCompressor{}
		case recordio.CompressionTypeSnappy:
			c = &compressor.SnappyCompressor{}
		default:
			c = &compressor.LzwCompressor{}
		}
		for _, s := range samples {
			out, err := c.CompressWithBuf(s, make([]byte, 0, 16))
			if err != nil || out == nil {
				bad("compressor_roundtrip: CompressWithBuf(code %d, %d bytes) = (nil=%v, %v)", code, len(s), out == nil, err)
			}
			back, err := c.DecompressWithBuf(out, make([]byte, 0, len(s)))
			if err != nil || !bytes.Equal(back, s) {
				bad("compressor_roundtrip: code %d does not round-trip %d bytes (%v)", code, len(s), err)
			}
		}
	}

	// proto_marshal / proto_roundtrip: decoding writes only the message it is given
	other := &sproto.IndexEntry{Key: []byte("other"), ValueOffset: 7, Checksum: 9}
	enc, err := proto.Marshal(&sproto.IndexEntry{Key: []byte("k"), ValueOffset: 42, Checksum: 1})
	if err != nil {
		t.Fatal(err)
	}
	dec := &sproto.IndexEntry{}
	if err := proto.Unmarshal(enc, dec); err != nil || string(dec.Key) != "k" || dec.ValueOffset != 42 || dec.Checksum != 1 {
		bad("proto_roundtrip: decoded %v (%v)", dec, err)
	}
	if string(other.Key) != "other" || other.ValueOffset != 7 || other.Checksum != 9 {
		bad("proto_marshal: decoding changed another message")
	}
}
