package skiplist

// Bounded stand-in for Map.Insert (property C16): every insertion order of up to 6 distinct int keys (all permutations),
// under two consistent comparators (one returning -1/0/1, one returning differences), is inserted into the real skip list;
// afterwards the representation invariant of the contracts (level structure, order, completeness of level 0), Size, Get,
// Contains for present and absent probes and the three iterators (inclusive bounds, inverted bounds rejected) are checked.
// Bound: n <= 6 keys, probes in [-1, 2n+1]. Labelled bounded in the evidence; never counted as proved.

import (
	"errors"
	"fmt"
	"sort"
	"testing"
)

type govcDiffCmp struct{}

func (govcDiffCmp) Compare(a, b int) int { return (a - b) * 3 }

func govcPerms(xs []int, f func([]int)) {
	var rec func(k int)
	rec = func(k int) {
		if k == len(xs) {
			f(xs)
			return
		}
		for i := k; i < len(xs); i++ {
			xs[k], xs[i] = xs[i], xs[k]
			rec(k + 1)
			xs[k], xs[i] = xs[i], xs[k]
		}
	}
	rec(0)
}

func govcCheckList(order []int, cmp Comparator[int]) string {
	l := NewSkipListMap[int, string](cmp).(*Map[int, string])
	for _, k := range order {
		l.Insert(k, fmt.Sprint("v", k))
	}
	sorted := append([]int(nil), order...)
	sort.Ints(sorted)
	if l.Size() != len(order) {
		return fmt.Sprintf("Size()=%d after %d inserts", l.Size(), len(order))
	}
	// structure: every level is an ascending sub-list of level 0, level 0 holds all keys
	for lv := 0; lv < l.maxHeight; lv++ {
		var keys []int
		for n := l.head.next[lv]; n != nil; n = n.next[lv] {
			if lv >= len(n.next) {
				return fmt.Sprintf("node %d is linked on level %d but has height %d", n.key, lv, len(n.next))
			}
			keys = append(keys, n.key)
		}
		if !sort.IntsAreSorted(keys) {
			return fmt.Sprintf("level %d is not ascending: %v", lv, keys)
		}
		if lv == 0 && fmt.Sprint(keys) != fmt.Sprint(sorted) {
			return fmt.Sprintf("level 0 holds %v, inserted %v", keys, sorted)
		}
	}
	present := map[int]bool{}
	for _, k := range order {
		present[k] = true
	}
	lo, hi := -1, 2*len(order)+1
	for p := lo; p <= hi; p++ {
		v, err := l.Get(p)
		if present[p] != (err == nil) || (err == nil && v != fmt.Sprint("v", p)) || (err != nil && !errors.Is(err, NotFound)) || l.Contains(p) != present[p] {
			return fmt.Sprintf("probe %d: Get=(%q,%v) Contains=%v, inserted %v", p, v, err, l.Contains(p), sorted)
		}
		it, _ := l.IteratorStartingAt(p)
		var got, want []int
		for {
			k, _, err := it.Next()
			if err != nil {
				break
			}
			got = append(got, k)
		}
		for _, k := range sorted {
			if k >= p {
				want = append(want, k)
			}
		}
		if fmt.Sprint(got) != fmt.Sprint(want) {
			return fmt.Sprintf("IteratorStartingAt(%d) = %v, want %v", p, got, want)
		}
		for q := lo; q <= hi; q++ {
			it, err := l.IteratorBetween(p, q)
			if p > q {
				if err == nil {
					return fmt.Sprintf("IteratorBetween(%d,%d) was not rejected (keys %v)", p, q, sorted)
				}
				continue
			}
			if err != nil {
				return fmt.Sprintf("IteratorBetween(%d,%d) rejected: %v", p, q, err)
			}
			got, want = nil, nil
			for {
				k, _, err := it.Next()
				if err != nil {
					break
				}
				got = append(got, k)
			}
			for _, k := range sorted {
				if k >= p && k <= q {
					want = append(want, k)
				}
			}
			if fmt.Sprint(got) != fmt.Sprint(want) {
				return fmt.Sprintf("IteratorBetween(%d,%d) = %v, want %v (keys %v)", p, q, got, want, sorted)
			}
		}
	}
	return ""
}

func TestReplay_skiplist_insert(t *testing.T) {
	for n := 0; n <= 6; n++ {
		keys := make([]int, n)
		for i := range keys {
			keys[i] = 2 * i // even keys: odd probes are absent
		}
		for _, cmp := range []Comparator[int]{OrderedComparator[int]{}, govcDiffCmp{}} {
			cmp := cmp
			govcPerms(keys, func(order []int) {
				if msg := govcCheckList(order, cmp); msg != "" {
					t.Fatalf("REPRODUCED: insertion order %v (comparator %T): %s", order, cmp, msg)
				}
			})
		}
	}
}
