package recordio

// Bounded stand-in / replay driver for the random access path of property C04 (MMapReader.SeekNext): files whose payloads
// contain the record marker, prefixes of it, a marker followed by bytes that do not parse as a header, and payloads that end in
// marker prefixes are written with the real writer; for EVERY byte offset of the file SeekNext must return the first record
// that starts at or after the offset (start offsets come from Write), with its payload, or io.EOF behind the last record.

import (
	"bytes"
	"errors"
	"fmt"
	"io"
	"os"
	"path/filepath"
	"testing"
)

func govcSeekPayloads() [][]byte {
	m := MagicNumberSeparatorLongBytes
	over := append(append([]byte{}, m...), 0x00, 0xff, 0xff, 0xff, 0xff, 0xff, 0xff, 0xff, 0xff, 0xff, 0xff, 0xff) // marker + a varint that overflows
	return [][]byte{
		[]byte("plain"),
		{m[0]},                         // ends with the first marker byte
		{'x', m[0], m[1]},              // ends with the first two marker bytes
		append([]byte("in"), m...),     // a complete marker at the end
		append(append([]byte{}, m...), []byte("tail")...),
		over,
		{m[0], m[0], m[1], m[0], m[1], m[2], m[0]},
		{},
		nil,
		bytes.Repeat([]byte{m[0]}, 5),
	}
}

func TestReplay_seeknext_model(t *testing.T) {
	dir, err := os.MkdirTemp("", "govc_seek")
	if err != nil {
		t.Fatal(err)
	}
	defer os.RemoveAll(dir)
	pl := govcSeekPayloads()
	comps := []int{CompressionTypeNone, CompressionTypeSnappy}
	n := 0
	for _, comp := range comps {
		// every ordered pair of payloads, and the full list
		var seqs [][][]byte
		seqs = append(seqs, pl)
		for _, a := range pl {
			for _, b := range pl {
				seqs = append(seqs, [][]byte{a, b, []byte("end")})
			}
		}
		for si, seq := range seqs {
			path := filepath.Join(dir, fmt.Sprintf("f%d_%d", comp, si))
			w, err := NewFileWriter(Path(path), CompressionType(comp))
			if err != nil {
				t.Fatal(err)
			}
			if err := w.Open(); err != nil {
				t.Fatal(err)
			}
			var starts []uint64
			for _, p := range seq {
				o, err := w.Write(p)
				if err != nil {
					t.Fatal(err)
				}
				starts = append(starts, o)
			}
			size := w.Size()
			if err := w.Close(); err != nil {
				t.Fatal(err)
			}
			r, err := NewMemoryMappedReaderWithPath(path)
			if err != nil {
				t.Fatal(err)
			}
			if err := r.Open(); err != nil {
				t.Fatal(err)
			}
			for off := uint64(0); off <= size; off++ {
				n++
				want := -1
				for i, s := range starts {
					if s >= off {
						want = i
						break
					}
				}
				gotOff, rec, err := r.SeekNext(off)
				what := fmt.Sprintf("compression %d, records %q (start offsets %v), SeekNext(%d)", comp, seq, starts, off)
				switch {
				case want < 0:
					if !errors.Is(err, io.EOF) {
						t.Fatalf("REPRODUCED: %s behind the last record returned (%d, %q, %v), expected io.EOF", what, gotOff, rec, err)
					}
				case err != nil:
					t.Fatalf("REPRODUCED: %s failed with %v, the record at %d follows", what, err, starts[want])
				case gotOff != starts[want]:
					t.Fatalf("REPRODUCED: %s returned the record at %d, the first record at or after the offset starts at %d", what, gotOff, starts[want])
				case !bytes.Equal(rec, seq[want]) || (rec == nil) != (seq[want] == nil):
					t.Fatalf("REPRODUCED: %s returned payload %q, written %q", what, rec, seq[want])
				}
			}
			r.Close()
			os.Remove(path)
		}
	}
	t.Logf("seeknext_model: %d seeks", n)
}
