package recordio

// Bounded stand-in / replay driver for property C12: for small generated files under each compression type
//  (a) every truncation length 0..size: the sequential reader returns exactly the records completely contained in the
//      remaining bytes, in order, and then io.EOF or an error - never other data; the mmap reader returns record i at its
//      offset only if it is completely contained;
//  (b) every single-byte alteration of every record header byte (thorough: all 255 other values; quick: bit flips, 0x00, 0xff, marker bytes) makes reading that record fail,
//      for the sequential and the random-access reader;
//  (c) file headers with unsupported version or compression codes are rejected by Open.

import (
	"bytes"
	"encoding/binary"
	"errors"
	"fmt"
	"io"
	"os"
	"path/filepath"
	"testing"
)

func govcWriteFile(t *testing.T, path string, comp int, recs [][]byte) (offs []uint64, end uint64) {
	w, err := NewFileWriter(Path(path), CompressionType(comp))
	if err != nil {
		t.Fatal(err)
	}
	if err := w.Open(); err != nil {
		t.Fatal(err)
	}
	for _, r := range recs {
		o, err := w.Write(r)
		if err != nil {
			t.Fatal(err)
		}
		offs = append(offs, o)
	}
	end = w.Size()
	if err := w.Close(); err != nil {
		t.Fatal(err)
	}
	return
}

func govcReadAllSeq(path string) (recs [][]byte, final error) {
	rd, err := NewFileReaderWithPath(path)
	if err != nil {
		return nil, err
	}
	if err := rd.Open(); err != nil {
		return nil, err
	}
	defer rd.Close()
	for {
		r, err := rd.ReadNext()
		if err != nil {
			return recs, err
		}
		recs = append(recs, r)
		if len(recs) > 64 {
			return recs, errors.New("runaway")
		}
	}
}

func TestReplay_recordio_damage(t *testing.T) {
	dir, err := os.MkdirTemp("", "govc_dmg")
	if err != nil {
		t.Fatal(err)
	}
	defer os.RemoveAll(dir)
	recs := [][]byte{[]byte("first"), nil, {}, {0x00, 0x91, 0x8d, 0x4c, 0x00}, bytes.Repeat([]byte("xyz"), 90)}
	comps := []int{CompressionTypeNone, CompressionTypeSnappy}
	if os.Getenv("GOVC_TIER") == "thorough" {
		comps = []int{CompressionTypeNone, CompressionTypeSnappy, CompressionTypeGZIP, CompressionTypeLzw}
	}
	for _, comp := range comps {
		path := filepath.Join(dir, fmt.Sprintf("f%d.rio", comp))
		offs, end := govcWriteFile(t, path, comp, recs)
		orig, _ := os.ReadFile(path)
		bound := append(append([]uint64(nil), offs...), end)
		cut := filepath.Join(dir, "cut.rio")
		// (a) truncation
		for l := 0; l <= len(orig); l++ {
			if err := os.WriteFile(cut, orig[:l], 0o644); err != nil {
				t.Fatal(err)
			}
			complete := 0
			for complete < len(recs) && bound[complete+1] <= uint64(l) {
				complete++
			}
			got, final := govcReadAllSeq(cut)
			if l < FileHeaderSizeBytes {
				if len(got) != 0 {
					t.Fatalf("REPRODUCED: compression %d cut at %d (inside the file header): reader delivered %d records", comp, l, len(got))
				}
				continue
			}
			if len(got) != complete || final == nil {
				t.Fatalf("REPRODUCED: compression %d cut at %d: sequential reader delivered %d records then %v, %d records are completely contained", comp, l, len(got), final, complete)
			}
			for i := range got {
				if (got[i] == nil) != (recs[i] == nil) || !bytes.Equal(got[i], recs[i]) {
					t.Fatalf("REPRODUCED: compression %d cut at %d: record %d = %q, written %q", comp, l, i, got[i], recs[i])
				}
			}
			mm, err := NewMemoryMappedReaderWithPath(cut)
			if err != nil {
				continue
			}
			if err := mm.Open(); err == nil {
				for i := range recs {
					got, err := mm.ReadNextAt(offs[i])
					if err == nil && (i >= complete || (got == nil) != (recs[i] == nil) || !bytes.Equal(got, recs[i])) {
						t.Fatalf("REPRODUCED: compression %d cut at %d: mmap reader returned %q for record %d (complete records: %d, written %q)", comp, l, got, i, complete, recs[i])
					}
					if err != nil && i < complete {
						t.Fatalf("REPRODUCED: compression %d cut at %d: mmap reader failed on the complete record %d: %v", comp, l, i, err)
					}
				}
			}
			mm.Close()
		}
		// (b) header byte alterations
		hdr := make([]byte, RecordHeaderV4MaxSizeBytes)
		for i, r := range recs {
			stored := bound[i+1] - offs[i]
			var hl int
			if r == nil {
				hl = int(stored)
			} else {
				// header length = record extent minus stored payload; recompute from the header itself
				rdr := bytes.NewReader(orig[offs[i]:])
				cr := newChecksumByteReader(rdr, hdr)
				if _, _, _, err := readRecordHeaderV4(cr); err != nil {
					t.Fatal(err)
				}
				hl = cr.Count()
			}
			for p := 0; p < hl; p++ {
				for v := 0; v < 256; v++ {
					pos := int(offs[i]) + p
					if byte(v) == orig[pos] {
						continue
					}
					if os.Getenv("GOVC_TIER") != "thorough" {
						// quick tier: single bit flips, 0x00, 0xff and the marker bytes only
						x := byte(v) ^ orig[pos]
						if x&(x-1) != 0 && v != 0 && v != 0xff && v != 0x91 && v != 0x8d && v != 0x4c {
							continue
						}
					}
					mod := append([]byte(nil), orig...)
					mod[pos] = byte(v)
					if err := os.WriteFile(cut, mod, 0o644); err != nil {
						t.Fatal(err)
					}
					got, _ := govcReadAllSeq(cut)
					if len(got) > i {
						t.Fatalf("REPRODUCED: compression %d: header byte %d of record %d altered 0x%02x->0x%02x, sequential reader still returned record %d = %q (written %q)", comp, p, i, orig[pos], v, i, got[i], recs[i])
					}
					mm, err := NewMemoryMappedReaderWithPath(cut)
					if err != nil {
						t.Fatal(err)
					}
					if err := mm.Open(); err == nil {
						if got, err := mm.ReadNextAt(offs[i]); err == nil {
							t.Fatalf("REPRODUCED: compression %d: header byte %d of record %d altered 0x%02x->0x%02x, mmap reader returned %q (written %q)", comp, p, i, orig[pos], v, got, recs[i])
						}
					}
					mm.Close()
				}
			}
		}
	}
	// (c) file header codes
	for version := uint32(0); version <= 6; version++ {
		for code := uint32(0); code <= 5; code++ {
			b := make([]byte, 8)
			binary.LittleEndian.PutUint32(b[0:4], version)
			binary.LittleEndian.PutUint32(b[4:8], code)
			p := filepath.Join(dir, "hdr.rio")
			_ = os.WriteFile(p, b, 0o644)
			ok := version >= 1 && version <= 4 && code <= 3
			rd, err := NewFileReaderWithPath(p)
			if err == nil {
				err = rd.Open()
				rd.Close()
			}
			if (err == nil) != ok {
				t.Fatalf("REPRODUCED: file header version=%d compression=%d: Open returned %v, supported=%v", version, code, err, ok)
			}
		}
	}
	_ = io.EOF
}
