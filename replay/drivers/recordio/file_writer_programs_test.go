package recordio

// Replay driver / bounded stand-in for the FileWriter contracts (properties C04, C15, C20): writer programs over the record
// alphabet {nil, empty, "a", marker bytes, 40 bytes} - up to 3 writes, then optionally a Seek back to any earlier record
// boundary followed by up to 2 more writes, then Close - for every compression type. After Close: the file size equals the
// offset after the last surviving record, the sequential reader yields exactly the surviving records (nil distinguished from
// empty) and then io.EOF, the mmap reader returns record i at the offset Write returned, and skipping equals reading.

import (
	"bytes"
	"errors"
	"fmt"
	"io"
	"os"
	"path/filepath"
	"testing"
)

func govcRecs() [][]byte {
	long := bytes.Repeat([]byte{0x91, 0x8d, 0x4c, 0x00, 0x41}, 8)
	return [][]byte{nil, {}, []byte("a"), {0x91, 0x8d, 0x4c}, long}
}

func govcRunWriterProgram(t *testing.T, dir string, comp int, first []int, seekTo int, second []int) string {
	path := filepath.Join(dir, fmt.Sprintf("p_%d.rio", comp))
	os.Remove(path)
	w, err := NewFileWriter(Path(path), CompressionType(comp), BufferSizeBytes(64))
	if err != nil {
		t.Fatal(err)
	}
	if err := w.Open(); err != nil {
		t.Fatal(err)
	}
	recs := govcRecs()
	var surv [][]byte
	var offs []uint64
	for _, r := range first {
		o, err := w.Write(recs[r])
		if err != nil {
			return "write failed: " + err.Error()
		}
		surv, offs = append(surv, recs[r]), append(offs, o)
	}
	if seekTo >= 0 {
		target := w.Size()
		if seekTo < len(offs) {
			target = offs[seekTo]
		}
		if err := w.Seek(target); err != nil {
			return fmt.Sprintf("seek to record boundary %d failed: %v", target, err)
		}
		if seekTo < len(offs) {
			surv, offs = surv[:seekTo], offs[:seekTo]
		}
		for _, r := range second {
			o, err := w.Write(recs[r])
			if err != nil {
				return "write failed: " + err.Error()
			}
			surv, offs = append(surv, recs[r]), append(offs, o)
		}
	}
	end := w.Size()
	if err := w.Close(); err != nil {
		return "close failed: " + err.Error()
	}
	st, err := os.Stat(path)
	if err != nil {
		t.Fatal(err)
	}
	if uint64(st.Size()) != end {
		return fmt.Sprintf("file size %d after Close, the last surviving record ends at %d", st.Size(), end)
	}
	rd, err := NewFileReaderWithPath(path)
	if err != nil {
		t.Fatal(err)
	}
	if err := rd.Open(); err != nil {
		return "reader open failed: " + err.Error()
	}
	defer rd.Close()
	for i, want := range surv {
		got, err := rd.ReadNext()
		if err != nil {
			return fmt.Sprintf("sequential read of record %d failed: %v", i, err)
		}
		if (got == nil) != (want == nil) || !bytes.Equal(got, want) {
			return fmt.Sprintf("sequential record %d = %q (nil=%v), written %q (nil=%v)", i, got, got == nil, want, want == nil)
		}
	}
	if got, err := rd.ReadNext(); !errors.Is(err, io.EOF) {
		return fmt.Sprintf("after the %d surviving records the reader returned (%q, %v), want io.EOF", len(surv), got, err)
	}
	mm, err := NewMemoryMappedReaderWithPath(path)
	if err != nil {
		t.Fatal(err)
	}
	if err := mm.Open(); err != nil {
		return "mmap open failed: " + err.Error()
	}
	defer mm.Close()
	for i, want := range surv {
		got, err := mm.ReadNextAt(offs[i])
		if err != nil || (got == nil) != (want == nil) || !bytes.Equal(got, want) {
			return fmt.Sprintf("mmap record %d at offset %d = (%q, %v), written %q (nil=%v)", i, offs[i], got, err, want, want == nil)
		}
	}
	// skipping is reading and discarding: skip every second record
	rd2, _ := NewFileReaderWithPath(path)
	if err := rd2.Open(); err != nil {
		return "reader open failed: " + err.Error()
	}
	defer rd2.Close()
	for i, want := range surv {
		if i%2 == 0 {
			if err := rd2.SkipNext(); err != nil {
				return fmt.Sprintf("SkipNext of record %d failed: %v", i, err)
			}
			continue
		}
		got, err := rd2.ReadNext()
		if err != nil || (got == nil) != (want == nil) || !bytes.Equal(got, want) {
			return fmt.Sprintf("after skipping, record %d = (%q, %v), written %q", i, got, err, want)
		}
	}
	if got, err := rd2.ReadNext(); !errors.Is(err, io.EOF) {
		return fmt.Sprintf("after the mixed skip/read program the reader returned (%q, %v), want io.EOF", got, err)
	}
	// the complementary program: read the even records, skip the odd ones
	rd3, _ := NewFileReaderWithPath(path)
	if err := rd3.Open(); err != nil {
		return "reader open failed: " + err.Error()
	}
	defer rd3.Close()
	for i, want := range surv {
		if i%2 == 1 {
			if err := rd3.SkipNext(); err != nil {
				return fmt.Sprintf("SkipNext of record %d failed: %v", i, err)
			}
			continue
		}
		got, err := rd3.ReadNext()
		if err != nil || (got == nil) != (want == nil) || !bytes.Equal(got, want) {
			return fmt.Sprintf("read/skip program: record %d = (%q, %v), written %q", i, got, err, want)
		}
	}
	if got, err := rd3.ReadNext(); !errors.Is(err, io.EOF) {
		return fmt.Sprintf("after the read/skip program the reader returned (%q, %v), want io.EOF", got, err)
	}
	return ""
}

func TestReplay_file_writer_programs(t *testing.T) {
	dir, err := os.MkdirTemp("", "govc_fw")
	if err != nil {
		t.Fatal(err)
	}
	defer os.RemoveAll(dir)
	n := len(govcRecs())
	var seqs [][]int
	var gen func(cur []int, k int)
	gen = func(cur []int, k int) {
		seqs = append(seqs, append([]int(nil), cur...))
		if k == 0 {
			return
		}
		for i := 0; i < n; i++ {
			gen(append(cur, i), k-1)
		}
	}
	gen(nil, 3)
	var tails [][]int
	for _, s := range seqs {
		if len(s) <= 2 {
			tails = append(tails, s)
		}
	}
	comps := []int{CompressionTypeNone, CompressionTypeSnappy, CompressionTypeGZIP, CompressionTypeLzw}
	if os.Getenv("GOVC_TIER") != "thorough" {
		comps = []int{CompressionTypeNone, CompressionTypeSnappy}
	}
	for _, comp := range comps {
		for _, first := range seqs {
			if msg := govcRunWriterProgram(t, dir, comp, first, -1, nil); msg != "" {
				t.Fatalf("REPRODUCED: compression %d, writes %v, Close: %s", comp, first, msg)
			}
			for seekTo := 0; seekTo <= len(first); seekTo++ {
				for _, second := range tails {
					if os.Getenv("GOVC_TIER") != "thorough" && len(first)+len(second) > 3 {
						continue // keep the quick tier short
					}
					if msg := govcRunWriterProgram(t, dir, comp, first, seekTo, second); msg != "" {
						t.Fatalf("REPRODUCED: compression %d, writes %v, Seek to boundary %d, writes %v, Close: %s", comp, first, seekTo, second, msg)
					}
				}
			}
		}
	}
}
