package simpledb

// Replay driver for executeCompaction / reflectCompactionResult (properties C06, C01): table lineages over a small key
// universe (values, overwrites, tombstones shadowing older values) are built through the real write path with forced
// flushes, every selectable run (chosen through the max-size setting / sizes) is compacted with the real
// executeCompaction + reflectCompactionResult, and Get of every key is compared before and after, and after a restart.

import (
	"errors"
	"fmt"
	"os"
	"testing"
)

type govcStep struct {
	del bool
	k   string
	v   string
}

func govcGetAll(db *DB, keys []string) map[string]string {
	out := map[string]string{}
	for _, k := range keys {
		v, err := db.Get(k)
		switch {
		case err == nil:
			out[k] = "=" + v
		case errors.Is(err, ErrNotFound):
			out[k] = "<not found>"
		default:
			out[k] = "error: " + err.Error()
		}
	}
	return out
}

// govcLineage writes each table's steps and forces a flush after it; big tables get a large filler value so that the
// size threshold can exclude them from the selection.
func govcLineage(t *testing.T, tables [][]govcStep, big []bool, maxSize uint64) (string, []string) {
	dir, err := os.MkdirTemp("", "govc_c06")
	if err != nil {
		t.Fatal(err)
	}
	db, err := NewSimpleDB(dir, DisableCompactions(), CompactionMaxSizeBytes(maxSize), CompactionFileThreshold(1), CompactionRatio(1.0))
	if err != nil {
		t.Fatal(err)
	}
	if err := db.Open(); err != nil {
		t.Fatal(err)
	}
	keysSeen := map[string]bool{}
	var keys []string
	for ti, steps := range tables {
		for _, s := range steps {
			if !keysSeen[s.k] {
				keysSeen[s.k] = true
				keys = append(keys, s.k)
			}
			if s.del {
				err = db.Delete(s.k)
			} else {
				err = db.Put(s.k, s.v)
			}
			if err != nil {
				t.Fatal(err)
			}
		}
		if big[ti] {
			filler := make([]byte, 16384) // incompressible, so that the table really exceeds the size threshold
			x := uint32(2463534242 + ti)
			for i := range filler {
				x ^= x << 13
				x ^= x >> 17
				x ^= x << 5
				filler[i] = byte('a' + x%26)
			}
			if err := db.Put(fmt.Sprintf("zz-filler-%d", ti), string(filler)); err != nil {
				t.Fatal(err)
			}
		}
		// force the memstore into its own table
		db.rwLock.Lock()
		err = db.rotateWalAndFlushMemstore()
		db.rwLock.Unlock()
		if err != nil {
			t.Fatal(err)
		}
		for len(db.sstableManager.allSSTableReaders) < ti+1 {
			// wait for the flusher goroutine
			db.rwLock.RLock()
			db.rwLock.RUnlock()
		}
	}
	before := govcGetAll(db, keys)
	meta, err := executeCompaction(db)
	if err != nil {
		t.Fatalf("executeCompaction failed: %v", err)
	}
	if meta != nil {
		if err := db.sstableManager.reflectCompactionResult(meta); err != nil {
			t.Fatalf("reflectCompactionResult failed: %v", err)
		}
	}
	after := govcGetAll(db, keys)
	msg := ""
	for _, k := range keys {
		if before[k] != after[k] {
			msg = fmt.Sprintf("key %q read %s before the compaction cycle and %s after it (compacted: %v)", k, before[k], after[k], meta != nil)
		}
	}
	if err := db.Close(); err != nil {
		t.Fatal(err)
	}
	if msg == "" {
		db2, err := NewSimpleDB(dir, DisableCompactions())
		if err == nil {
			err = db2.Open()
		}
		if err != nil {
			msg = "reopen after the compaction cycle failed: " + err.Error()
		} else {
			re := govcGetAll(db2, keys)
			for _, k := range keys {
				if before[k] != re[k] {
					msg = fmt.Sprintf("key %q read %s before the compaction cycle and %s after a restart", k, before[k], re[k])
				}
			}
			_ = db2.Close()
		}
	}
	return msg, []string{dir}
}

func TestReplay_compaction_cycle(t *testing.T) {
	p := func(k, v string) govcStep { return govcStep{k: k, v: v} }
	d := func(k string) govcStep { return govcStep{del: true, k: k} }
	lineages := []struct {
		tables [][]govcStep
		big    []bool
	}{
		// everything small: the whole stack is compacted
		{[][]govcStep{{p("a", "1"), p("b", "1")}, {d("a"), p("c", "2")}, {p("b", "3")}}, []bool{false, false, false}},
		// the oldest table is too big to be selected; a newer table deletes one of its keys
		{[][]govcStep{{p("a", "1"), p("b", "1")}, {d("a"), p("c", "2")}, {p("b", "3")}}, []bool{true, false, false}},
		// big table in the middle: flood fill has to include it
		{[][]govcStep{{p("a", "1")}, {p("a", "2"), p("b", "2")}, {d("b"), p("c", "3")}}, []bool{false, true, false}},
		// overwrite chain with the newest table excluded
		{[][]govcStep{{p("a", "1")}, {d("a")}, {p("a", "3")}}, []bool{false, false, true}},
		{[][]govcStep{{p("a", "1"), p("b", "1")}, {p("a", "2")}, {d("a"), d("b")}, {p("b", "4")}}, []bool{true, false, false, false}},
	}
	for i, l := range lineages {
		msg, dirs := govcLineage(t, l.tables, l.big, 2048)
		for _, dir := range dirs {
			os.RemoveAll(dir)
		}
		if msg != "" {
			t.Fatalf("REPRODUCED: lineage %d: %s", i, msg)
		}
	}
}
