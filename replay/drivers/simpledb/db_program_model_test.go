package simpledb

// Bounded stand-in / replay driver for property C01: seeded random programs over a small key universe run against the real
// database and a reference map. Steps: put, overwrite, delete, get, forced memstore rotation (+ wait for the flusher),
// a compaction cycle (executeCompaction + reflectCompactionResult), close + re-open with another option set. Every Get is
// compared with the map; after every re-open the whole key universe is compared. A failing flush or compaction (which would
// terminate the process through log.Panicf in the background goroutines) is reported as well.

import (
	"errors"
	"fmt"
	"math/rand"
	"os"
	"testing"
	"time"
)

type govcModelOpts struct {
	memstore  uint64
	threshold int
	maxSize   uint64
	ratio     float32
	rbuf      uint64
	wbuf      uint64
}

func govcModelOptionSets() []govcModelOpts {
	return []govcModelOpts{
		{64, 1, 1 << 20, 1.0, 64, 64},
		{256, 2, 1 << 10, 0.5, 4096, 256},
		{1 << 20, 3, 1 << 20, 0.1, 1 << 16, 1 << 16},
		{128, 1, 1 << 12, 0.3, 128, 4096},
	}
}

func govcModelOpen(t *testing.T, dir string, o govcModelOpts) (*DB, error) {
	db, err := NewSimpleDB(dir, DisableCompactions(), MemstoreSizeBytes(o.memstore), CompactionFileThreshold(o.threshold),
		CompactionMaxSizeBytes(o.maxSize), CompactionRatio(o.ratio), ReadBufferSizeBytes(o.rbuf), WriteBufferSizeBytes(o.wbuf))
	if err != nil {
		return nil, err
	}
	return db, db.Open()
}

// wait until the flusher has nothing pending: it takes the manager lock when it installs a table, the channel is unbuffered,
// so an empty rotation handed over after the real one returns only when the earlier one is done
func govcModelQuiesce(db *DB) {
	time.Sleep(2 * time.Millisecond)
	db.rwLock.Lock()
	db.rwLock.Unlock()
}

// govcModelScenarios: fixed programs for corners that random 40-step programs do not reach.
func govcModelScenarios(t *testing.T) {
	// (1) a memstore generation that logs far more than its own size: 1500 overwrites and deletes of two keys keep the
	// memstore below its limit while the log grows past 100x that limit. After a clean restart the last writes must win.
	dir, err := os.MkdirTemp("", "govc_c01burst")
	if err != nil {
		t.Fatal(err)
	}
	defer os.RemoveAll(dir)
	o := govcModelOpts{256, 2, 1 << 20, 1.0, 4096, 4096}
	db, err := govcModelOpen(t, dir, o)
	if err != nil {
		t.Fatal(err)
	}
	for i := 0; i < 1500; i++ {
		if err := db.Put("a", fmt.Sprintf("v%06d", i)); err != nil {
			t.Fatal(err)
		}
		if i%3 == 0 {
			if err := db.Delete("b"); err != nil {
				t.Fatal(err)
			}
		} else if err := db.Put("b", fmt.Sprintf("w%06d", i)); err != nil {
			t.Fatal(err)
		}
	}
	if err := db.Close(); err != nil {
		t.Fatal(err)
	}
	db, err = govcModelOpen(t, dir, o)
	if err != nil {
		t.Fatalf("REPRODUCED: overwrite burst (1500 overwrites of two keys under a 256-byte memstore limit): re-open failed: %v", err)
	}
	if v, err := db.Get("a"); err != nil || v != "v001499" {
		t.Fatalf("REPRODUCED: overwrite burst (1500 overwrites of two keys under a 256-byte memstore limit), after a clean restart Get(a) = (%q, %v), the last put wrote \"v001499\"", v, err)
	}
	if v, err := db.Get("b"); err != nil || v != "w001499" {
		t.Fatalf("REPRODUCED: overwrite burst, after a clean restart Get(b) = (%q, %v), the last put wrote \"w001499\"", v, err)
	}
	db.Close()

	// (2) tables that hold only tombstones, compaction threshold 0: compacting them leaves an empty table, which is then
	// selected on its own. No compaction cycle may fail (a failing cycle terminates the process in the background compactor).
	dir2, err := os.MkdirTemp("", "govc_c01empty")
	if err != nil {
		t.Fatal(err)
	}
	defer os.RemoveAll(dir2)
	db, err = govcModelOpen(t, dir2, govcModelOpts{1 << 20, 0, 1 << 20, 0.5, 4096, 4096})
	if err != nil {
		t.Fatal(err)
	}
	for round := 0; round < 3; round++ {
		k := fmt.Sprintf("gone-%d", round)
		if err := db.Put(k, "x"); err != nil {
			t.Fatal(err)
		}
		if err := db.Delete(k); err != nil {
			t.Fatal(err)
		}
		db.rwLock.Lock()
		err := db.rotateWalAndFlushMemstore()
		db.rwLock.Unlock()
		if err != nil {
			t.Fatal(err)
		}
		govcModelQuiesce(db)
		for c := 0; c < 2; c++ {
			meta, err := executeCompaction(db)
			if err != nil {
				t.Fatalf("REPRODUCED: tombstone-only tables, compaction threshold 0, round %d cycle %d: the compaction cycle failed: %v", round, c, err)
			}
			if meta != nil {
				if err := db.sstableManager.reflectCompactionResult(meta); err != nil {
					t.Fatalf("REPRODUCED: tombstone-only tables: installing the compacted table failed: %v", err)
				}
			}
		}
		if _, err := db.Get(k); !errors.Is(err, ErrNotFound) {
			t.Fatalf("REPRODUCED: tombstone-only tables: Get(%q) = %v after delete and compaction", k, err)
		}
	}
	db.Close()
}

func TestReplay_db_program_model(t *testing.T) {
	govcModelScenarios(t)
	programs := 60
	if os.Getenv("GOVC_TIER") == "thorough" {
		programs = 600
	}
	keys := []string{"a", "b", "c", "d", "e"}
	sets := govcModelOptionSets()
	for p := 0; p < programs; p++ {
		rng := rand.New(rand.NewSource(int64(1000 + p)))
		dir, err := os.MkdirTemp("", "govc_c01")
		if err != nil {
			t.Fatal(err)
		}
		ref := map[string]string{}
		var trace []string
		fail := func(format string, a ...any) {
			os.RemoveAll(dir)
			t.Fatalf("REPRODUCED: program %d (seed %d), steps %v: %s", p, 1000+p, trace, fmt.Sprintf(format, a...))
		}
		cur := sets[rng.Intn(len(sets))]
		db, err := govcModelOpen(t, dir, cur)
		if err != nil {
			fail("open failed: %v", err)
		}
		func() {
			defer func() {
				if r := recover(); r != nil {
					fail("panic: %v", r)
				}
			}()
			for step := 0; step < 40; step++ {
				k := keys[rng.Intn(len(keys))]
				switch x := rng.Intn(20); {
				case x < 7:
					v := fmt.Sprintf("%s-%d-%d-%s", k, p, step, string(make([]byte, rng.Intn(3)*40)))
					trace = append(trace, "put "+k)
					if err := db.Put(k, v); err != nil {
						fail("Put(%q) failed: %v", k, err)
					}
					ref[k] = v
				case x < 10:
					trace = append(trace, "del "+k)
					if err := db.Delete(k); err != nil {
						fail("Delete(%q) failed: %v", k, err)
					}
					delete(ref, k)
				case x < 15:
					trace = append(trace, "get "+k)
					v, err := db.Get(k)
					want, ok := ref[k]
					if ok && (err != nil || v != want) {
						fail("Get(%q) = (%q, %v), the last put wrote %q", k, v, err, want)
					}
					if !ok && !errors.Is(err, ErrNotFound) {
						fail("Get(%q) = (%q, %v) for a key that is absent / deleted", k, v, err)
					}
				case x < 17:
					trace = append(trace, "rotate")
					db.rwLock.Lock()
					err := db.rotateWalAndFlushMemstore()
					db.rwLock.Unlock()
					if err != nil {
						fail("rotation failed: %v", err)
					}
					govcModelQuiesce(db)
				case x < 19:
					trace = append(trace, "compact")
					govcModelQuiesce(db)
					meta, err := executeCompaction(db)
					if err != nil {
						fail("a compaction cycle failed: %v", err)
					}
					if meta != nil {
						if err := db.sstableManager.reflectCompactionResult(meta); err != nil {
							fail("installing the compacted table failed: %v", err)
						}
					}
				default:
					cur = sets[rng.Intn(len(sets))]
					trace = append(trace, fmt.Sprintf("reopen(memstore=%d)", cur.memstore))
					if err := db.Close(); err != nil {
						fail("Close failed: %v", err)
					}
					db, err = govcModelOpen(t, dir, cur)
					if err != nil {
						fail("re-open failed: %v", err)
					}
					for _, kk := range keys {
						v, err := db.Get(kk)
						want, ok := ref[kk]
						if ok && (err != nil || v != want) {
							fail("after the restart Get(%q) = (%q, %v), expected %q", kk, v, err, want)
						}
						if !ok && !errors.Is(err, ErrNotFound) {
							fail("after the restart Get(%q) = (%q, %v) for an absent / deleted key", kk, v, err)
						}
					}
				}
			}
		}()
		if err := db.Close(); err != nil {
			fail("final Close failed: %v", err)
		}
		os.RemoveAll(dir)
	}
}
