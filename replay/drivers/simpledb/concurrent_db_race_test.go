package simpledb

// Bounded stand-in for property C18 (database handle): G goroutines work on one open SimpleDB with a tiny memstore (constant
// rotations and flushes) and the background compactor running at a short interval. Every goroutine owns its keys, so each of
// its Gets has a single-threaded answer: the value of its own last Put, or not-found after its own Delete. Runs under the Go
// race detector (the driver name ends in _race); a panic of a background goroutine fails the run as well.

import (
	"errors"
	"fmt"
	"math/rand"
	"os"
	"sync"
	"testing"
	"time"
)

func TestReplay_concurrent_db_race(t *testing.T) {
	goroutines, steps := 6, 250
	if os.Getenv("GOVC_TIER") == "thorough" {
		steps = 2500
	}
	for round := 0; round < 2; round++ {
		dir, err := os.MkdirTemp("", "govc_c18db")
		if err != nil {
			t.Fatal(err)
		}
		opts := []ExtraOption{MemstoreSizeBytes(300), CompactionRunInterval(20 * time.Millisecond), CompactionFileThreshold(2), CompactionMaxSizeBytes(1 << 20)}
		if round == 1 {
			opts = append(opts, EnableAsyncWAL())
		}
		db, err := NewSimpleDB(dir, opts...)
		if err == nil {
			err = db.Open()
		}
		if err != nil {
			t.Fatal(err)
		}
		var wg sync.WaitGroup
		errs := make(chan string, goroutines)
		for g := 0; g < goroutines; g++ {
			wg.Add(1)
			go func(g int) {
				defer wg.Done()
				rng := rand.New(rand.NewSource(int64(7 + g)))
				own := map[string]string{}
				for s := 0; s < steps; s++ {
					k := fmt.Sprintf("g%d-k%d", g, rng.Intn(6))
					switch x := rng.Intn(10); {
					case x < 4:
						v := fmt.Sprintf("v-%d-%d-%s", g, s, "................................")
						if err := db.Put(k, v); err != nil {
							errs <- fmt.Sprintf("round %d goroutine %d: Put failed: %v", round, g, err)
							return
						}
						own[k] = v
					case x < 6:
						if err := db.Delete(k); err != nil {
							errs <- fmt.Sprintf("round %d goroutine %d: Delete failed: %v", round, g, err)
							return
						}
						delete(own, k)
					default:
						v, err := db.Get(k)
						want, ok := own[k]
						if ok && (err != nil || v != want) {
							errs <- fmt.Sprintf("round %d goroutine %d step %d: Get(%q) = (%q, %v), its own last Put wrote %q", round, g, s, k, v, err, want)
							return
						}
						if !ok && !errors.Is(err, ErrNotFound) {
							errs <- fmt.Sprintf("round %d goroutine %d step %d: Get(%q) = (%q, %v) after its own Delete / before any Put", round, g, s, k, v, err)
							return
						}
					}
				}
			}(g)
		}
		wg.Wait()
		close(errs)
		for e := range errs {
			t.Fatalf("REPRODUCED: %s", e)
		}
		if err := db.Close(); err != nil {
			t.Fatalf("REPRODUCED: round %d: Close after the concurrent workload failed: %v", round, err)
		}
		os.RemoveAll(dir)
	}
}
