package simpledb

// Bounded stand-in / replay driver for properties C02, C13, C10 (and the restart part of C01): a child process runs a workload
// (puts, overwrites, deletes, forced memstore rotations through a tiny memstore limit, explicit compaction cycles) against a
// database directory under strace, which kills it at the entry of the N-th file-system system call of a thread
// (write, pwrite64, openat, rename*, unlink*, mkdir*, rmdir, ftruncate, fsync, fdatasync). The child acknowledges every
// returned operation on stdout. The parent then re-opens the directory: Open must succeed and every key must read as after
// the acknowledged operations, where the one operation in flight may or may not have happened (synchronous log), or as after
// some prefix that covers everything before the last rotation (asynchronous log). For C10 a second child that only runs the
// recovery (Open + Close) is killed the same way before the final Open.

import (
	"bufio"
	"bytes"
	"errors"
	"fmt"
	"os"
	"os/exec"
	"runtime"
	"strconv"
	"strings"
	"testing"
	"time"
)

type govcCrashOp struct {
	del     bool
	k, v    string
	compact bool
}

func govcCrashWorkload() []govcCrashOp {
	var ops []govcCrashOp
	p := func(k, v string) { ops = append(ops, govcCrashOp{k: k, v: v}) }
	d := func(k string) { ops = append(ops, govcCrashOp{del: true, k: k}) }
	c := func() { ops = append(ops, govcCrashOp{compact: true}) }
	pad := strings.Repeat("x", 60)
	p("a", "a1"+pad)
	p("b", "b1"+pad)
	p("c", "c1"+pad)
	d("a")
	p("d", "d1"+pad)
	p("b", "b2"+pad)
	c()
	p("a", "a2"+pad)
	d("c")
	p("e", "e1"+pad)
	d("b")
	p("c", "c2"+pad)
	c()
	p("b", "b3"+pad)
	d("e")
	p("f", "f1"+pad)
	return ops
}

var govcCrashKeys = []string{"a", "b", "c", "d", "e", "f"}

const govcCrashSyscalls = "write,pwrite64,openat,rename,renameat,renameat2,unlink,unlinkat,mkdir,mkdirat,rmdir,ftruncate,fsync,fdatasync"

// child role "workload": runs the operations, prints ACK <i> after each returned one and ROT <i> when operation i rotated the memstore.
func govcCrashChildWorkload(dir string, async bool, seq bool) {
	opts := []ExtraOption{DisableCompactions(), MemstoreSizeBytes(150), CompactionFileThreshold(1), CompactionMaxSizeBytes(1 << 20)}
	if seq {
		// sequential schedule: every file-system call of the session is issued by this (locked) thread, so the N-th call of
		// the thread is the N-th call of the process. Rotations are driven from here with the database's own steps
		// (Rotate + swapMemstore under the lock, then executeFlush), the background flusher never gets work.
		runtime.LockOSThread()
		opts = []ExtraOption{DisableCompactions(), MemstoreSizeBytes(1 << 30), CompactionFileThreshold(1), CompactionMaxSizeBytes(1 << 20)}
	}
	if async {
		opts = append(opts, EnableAsyncWAL())
	}
	db, err := NewSimpleDB(dir, opts...)
	if err == nil {
		err = db.Open()
	}
	if err != nil {
		fmt.Println("CHILDERR open:", err)
		os.Exit(3)
	}
	fmt.Println("OPENED")
	out := bufio.NewWriter(os.Stdout)
	for i, op := range govcCrashWorkload() {
		before := db.memStore
		switch {
		case op.compact:
			meta, err := executeCompaction(db)
			if err == nil && meta != nil {
				err = db.sstableManager.reflectCompactionResult(meta)
			}
			if err != nil {
				fmt.Println("CHILDERR compaction:", err)
				os.Exit(3)
			}
		case op.del:
			err = db.Delete(op.k)
		default:
			err = db.Put(op.k, op.v)
		}
		if err != nil {
			fmt.Println("CHILDERR op", i, err)
			os.Exit(3)
		}
		if seq && !op.compact && i%3 == 2 {
			db.rwLock.Lock()
			walPath, err := db.wal.Rotate()
			var action memStoreFlushAction
			if err == nil {
				action = memStoreFlushAction{memStore: swapMemstore(db), walPath: walPath}
			}
			db.rwLock.Unlock()
			if err == nil {
				fmt.Fprintf(out, "ROT %d\n", i)
				out.Flush()
				err = executeFlush(db, action)
			}
			if err != nil {
				fmt.Println("CHILDERR flush:", err)
				os.Exit(3)
			}
		}
		if !seq && db.memStore != before {
			fmt.Fprintf(out, "ROT %d\n", i)
		}
		fmt.Fprintf(out, "ACK %d\n", i)
		out.Flush()
	}
	if err := db.Close(); err != nil {
		fmt.Println("CHILDERR close:", err)
		os.Exit(3)
	}
	fmt.Println("CLOSED")
	os.Exit(0)
}

// child role "recover": Open and Close only.
func govcCrashChildRecover(dir string) {
	runtime.LockOSThread() // recovery runs on the calling goroutine: all of its file-system calls are counted on one thread
	db, err := NewSimpleDB(dir, DisableCompactions())
	if err == nil {
		err = db.Open()
	}
	if err != nil {
		fmt.Println("CHILDERR recover:", err)
		os.Exit(3)
	}
	if err := db.Close(); err != nil {
		fmt.Println("CHILDERR recover close:", err)
		os.Exit(3)
	}
	fmt.Println("RECOVERED")
	os.Exit(0)
}

func govcRunChild(t *testing.T, role, dir string, async bool, killAt int) (stdout string, killed bool) {
	return govcRunChildMode(t, role, dir, async, false, killAt)
}

func govcRunChildMode(t *testing.T, role, dir string, async, seq bool, killAt int) (stdout string, killed bool) {
	args := []string{"-f", "-qq", "-o", "/dev/null", "-e", "trace=" + govcCrashSyscalls}
	if killAt > 0 {
		args = append(args, "-e", fmt.Sprintf("inject=%s:signal=SIGKILL:when=%d", govcCrashSyscalls, killAt))
	}
	args = append(args, os.Args[0], "-test.run=^TestReplay_crash_points$", "-test.count=1")
	cmd := exec.Command("strace", args...)
	cmd.Env = append(os.Environ(), "GOVC_CRASH_ROLE="+role, "GOVC_CRASH_DIR="+dir, "GOVC_CRASH_ASYNC="+strconv.FormatBool(async), "GOVC_CRASH_SEQ="+strconv.FormatBool(seq), "GOMAXPROCS=1")
	var buf bytes.Buffer
	cmd.Stdout = &buf
	cmd.Stderr = &buf
	done := make(chan error, 1)
	if err := cmd.Start(); err != nil {
		return "", false
	}
	go func() { done <- cmd.Wait() }()
	select {
	case <-done:
	case <-time.After(60 * time.Second):
		cmd.Process.Kill()
		<-done
	}
	s := buf.String()
	finished := strings.Contains(s, "CLOSED") || strings.Contains(s, "RECOVERED")
	return s, !finished
}

func govcStraceWorks() bool {
	out, err := exec.Command("strace", "-f", "-qq", "-o", "/dev/null", "-e", "trace=write", "true").CombinedOutput()
	return err == nil && !bytes.Contains(out, []byte("Operation not permitted"))
}

// the reference map after the first n operations of the workload
func govcCrashReference(n int) map[string]string {
	ref := map[string]string{}
	for i, op := range govcCrashWorkload() {
		if i >= n {
			break
		}
		switch {
		case op.compact:
		case op.del:
			delete(ref, op.k)
		default:
			ref[op.k] = op.v
		}
	}
	return ref
}

func govcCrashState(db *DB) (map[string]string, error) {
	got := map[string]string{}
	for _, k := range govcCrashKeys {
		v, err := db.Get(k)
		if err == nil {
			got[k] = v
		} else if !errors.Is(err, ErrNotFound) {
			return nil, fmt.Errorf("Get(%q): %w", k, err)
		}
	}
	return got, nil
}

func govcSameMap(a, b map[string]string) bool {
	if len(a) != len(b) {
		return false
	}
	for k, v := range a {
		if b[k] != v {
			return false
		}
	}
	return true
}

func TestReplay_crash_points(t *testing.T) {
	switch os.Getenv("GOVC_CRASH_ROLE") {
	case "workload":
		govcCrashChildWorkload(os.Getenv("GOVC_CRASH_DIR"), os.Getenv("GOVC_CRASH_ASYNC") == "true", os.Getenv("GOVC_CRASH_SEQ") == "true")
	case "recover":
		govcCrashChildRecover(os.Getenv("GOVC_CRASH_DIR"))
	}
	if !govcStraceWorks() {
		t.Logf("crash_points: strace cannot trace here, no crash point explored")
		return
	}
	thorough := os.Getenv("GOVC_TIER") == "thorough"
	stride, nestedStride := 9, 4
	if thorough {
		stride, nestedStride = 1, 5
	}
	explored, nested := 0, 0
	for mode := 0; mode < 4; mode++ {
		async, seq := mode%2 == 1, mode >= 2
		emptyRuns := 0
		for killAt := 1; killAt < 6000 && emptyRuns < 2; killAt += stride {
			dir, err := os.MkdirTemp("", "govc_crash")
			if err != nil {
				t.Fatal(err)
			}
			out, killed := govcRunChildMode(t, "workload", dir, async, seq, killAt)
			if strings.Contains(out, "CHILDERR") {
				os.RemoveAll(dir)
				t.Fatalf("REPRODUCED: async=%v: the workload failed without a kill: %s", async, out)
			}
			if !killed {
				emptyRuns++ // the workload ran to its end: no thread issues that many calls
				os.RemoveAll(dir)
				continue
			}
			explored++
			acked, lastRot := 0, 0
			for _, line := range strings.Split(out, "\n") {
				if strings.HasPrefix(line, "ACK ") {
					n, _ := strconv.Atoi(strings.TrimPrefix(line, "ACK "))
					acked = n + 1
				}
				if strings.HasPrefix(line, "ROT ") {
					n, _ := strconv.Atoi(strings.TrimPrefix(line, "ROT "))
					lastRot = n // operation n itself went into the old memstore before the rotation
				}
			}
			what := fmt.Sprintf("async=%v, sequential schedule=%v, kill at file-system call %d of a thread (%d operations acknowledged)", async, seq, killAt, acked)
			if !strings.Contains(out, "OPENED") {
				acked = 0
			}
			// C10: every few crash images, kill the recovery as well (twice in the thorough tier)
			if explored%nestedStride == 0 {
				depth := 1
				if thorough {
					depth = 2
				}
				for dpt := 0; dpt < depth; dpt++ {
					rk := 1 + (explored*7+dpt*13)%60
					rout, rkilled := govcRunChild(t, "recover", dir, false, rk)
					if strings.Contains(rout, "CHILDERR") {
						os.RemoveAll(dir)
						t.Fatalf("REPRODUCED: %s: recovery of the crash image failed: %s", what, rout)
					}
					if rkilled {
						nested++
						what += fmt.Sprintf(", recovery killed at call %d", rk)
					}
				}
			}
			db, err := NewSimpleDB(dir, DisableCompactions())
			if err == nil {
				err = db.Open()
			}
			if err != nil {
				os.RemoveAll(dir)
				t.Fatalf("REPRODUCED: %s: re-opening the directory failed: %v", what, err)
			}
			got, err := govcCrashState(db)
			if err != nil {
				os.RemoveAll(dir)
				t.Fatalf("REPRODUCED: %s: reading after the restart failed: %v", what, err)
			}
			ok := false
			total := len(govcCrashWorkload())
			if !async {
				// exactly the acknowledged operations; the one in flight may or may not have happened
				for n := acked; n <= acked+1 && n <= total; n++ {
					if govcSameMap(got, govcCrashReference(n)) {
						ok = true
					}
				}
			} else {
				// some prefix that covers at least everything up to the last rotation (and at most the operation in flight)
				for n := lastRot; n <= acked+1 && n <= total; n++ {
					if govcSameMap(got, govcCrashReference(n)) {
						ok = true
					}
				}
			}
			db.Close()
			os.RemoveAll(dir)
			if !ok {
				t.Fatalf("REPRODUCED: %s: after the restart the database reads %v, acknowledged state is %v (last rotation at operation %d)", what, got, govcCrashReference(acked), lastRot)
			}
		}
	}
	// C10: a recovery that is killed while it clears the log directory. Three log files (a=1 | a=2 | a=3, none flushed), the
	// recovery child is killed at its k-th unlink; whatever subset of the log files is left, the next Open must read a=3.
	for k := 1; k <= 6; k++ {
		dir, err := os.MkdirTemp("", "govc_crashwal")
		if err != nil {
			t.Fatal(err)
		}
		db, err := NewSimpleDB(dir, DisableCompactions())
		if err == nil {
			err = db.Open()
		}
		if err != nil {
			t.Fatal(err)
		}
		for i := 1; i <= 3; i++ {
			if err := db.Put("a", fmt.Sprintf("a%d", i)); err != nil {
				t.Fatal(err)
			}
			if err := db.Put(fmt.Sprintf("only-in-file-%d", i), "x"); err != nil {
				t.Fatal(err)
			}
			if i < 3 {
				if _, err := db.wal.Rotate(); err != nil { // a rotation whose flush has not happened yet
					t.Fatal(err)
				}
			}
		}
		// the process "dies" here: nothing is closed, the synchronous appends are on disk
		img, err := os.MkdirTemp("", "govc_crashwalimg")
		if err != nil {
			t.Fatal(err)
		}
		if err := exec.Command("cp", "-a", dir+"/.", img).Run(); err != nil {
			t.Fatal(err)
		}
		args := []string{"-f", "-qq", "-o", "/dev/null", "-e", "trace=unlinkat,unlink", "-e", fmt.Sprintf("inject=unlinkat,unlink:signal=SIGKILL:when=%d", k),
			os.Args[0], "-test.run=^TestReplay_crash_points$", "-test.count=1"}
		cmd := exec.Command("strace", args...)
		cmd.Env = append(os.Environ(), "GOVC_CRASH_ROLE=recover", "GOVC_CRASH_DIR="+img, "GOMAXPROCS=1")
		rout, _ := cmd.CombinedOutput()
		if strings.Contains(string(rout), "CHILDERR") {
			t.Fatalf("REPRODUCED: recovery of a directory with three unflushed log files failed: %s", rout)
		}
		left, _ := os.ReadDir(img + "/" + WriteAheadFolder)
		var names []string
		for _, e := range left {
			names = append(names, e.Name())
		}
		db2, err := NewSimpleDB(img, DisableCompactions())
		if err == nil {
			err = db2.Open()
		}
		if err != nil {
			t.Fatalf("REPRODUCED: recovery killed at its unlink %d (log files left: %v): the next Open failed: %v", k, names, err)
		}
		v, err := db2.Get("a")
		if err != nil || v != "a3" {
			t.Fatalf("REPRODUCED: recovery killed at its unlink %d while clearing the log directory (log files left: %v): the next Open reads a=%q (%v), the last acknowledged value is \"a3\"", k, names, v, err)
		}
		db2.Close()
		os.RemoveAll(img)
		os.RemoveAll(dir)
		explored++
	}
	t.Logf("crash_points: %d crash images explored, %d of them with a killed recovery in between", explored, nested)
	if explored == 0 {
		t.Fatalf("crash_points: no crash point was reached (strace injection did not kill the workload)")
	}
}
