package simpledb

// Bounded stand-in / replay driver for property C19 (database): descriptors and mappings under the database directory and
// the goroutines of the process are counted. While the database runs through flush and compaction cycles the handle count
// stays within (live tables x 3) + 8; after Close none remain, the goroutine count is back, and the directory can be
// re-opened and removed. A compaction that fails on a damaged input table must not keep the readers it opened.

import (
	"fmt"
	"os"
	"path/filepath"
	"runtime"
	"strings"
	"testing"
	"time"
)

func govcDBHandles(dir string) (fds, maps int) {
	es, _ := os.ReadDir("/proc/self/fd")
	for _, e := range es {
		if l, err := os.Readlink(filepath.Join("/proc/self/fd", e.Name())); err == nil && strings.HasPrefix(l, dir) {
			fds++
		}
	}
	if b, err := os.ReadFile("/proc/self/maps"); err == nil {
		for _, line := range strings.Split(string(b), "\n") {
			if strings.Contains(line, dir) {
				maps++
			}
		}
	}
	return
}

func govcFlushNow(t *testing.T, db *DB, wantTables int) {
	db.rwLock.Lock()
	err := db.rotateWalAndFlushMemstore()
	db.rwLock.Unlock()
	if err != nil {
		t.Fatal(err)
	}
	deadline := time.Now().Add(10 * time.Second)
	for len(db.sstableManager.allSSTableReaders) < wantTables && time.Now().Before(deadline) {
		db.rwLock.RLock()
		db.rwLock.RUnlock()
		time.Sleep(time.Millisecond)
	}
}

func TestReplay_db_handles(t *testing.T) {
	runtime.GC()
	goroutinesBefore := runtime.NumGoroutine()
	for round := 0; round < 2; round++ {
		dir, err := os.MkdirTemp("", "govc_c19db")
		if err != nil {
			t.Fatal(err)
		}
		for cycle := 0; cycle < 3; cycle++ { // open/close cycles on the same directory
			db, err := NewSimpleDB(dir, DisableCompactions(), CompactionFileThreshold(1), CompactionMaxSizeBytes(1<<20))
			if err != nil {
				t.Fatal(err)
			}
			if err := db.Open(); err != nil {
				t.Fatalf("REPRODUCED: open/close cycle %d: the directory cannot be re-opened: %v", cycle, err)
			}
			for c := 0; c < 4; c++ { // flush / compaction cycles
				tablesBefore := len(db.sstableManager.allSSTableReaders)
				for k := 0; k < 5; k++ {
					if err := db.Put(fmt.Sprintf("key-%d-%d", c, k), fmt.Sprintf("value-%d-%d-%d", cycle, c, k)); err != nil {
						t.Fatal(err)
					}
				}
				govcFlushNow(t, db, tablesBefore+1)
				if c%2 == 1 {
					meta, err := executeCompaction(db)
					if err != nil {
						t.Fatal(err)
					}
					if meta != nil {
						if err := db.sstableManager.reflectCompactionResult(meta); err != nil {
							t.Fatal(err)
						}
					}
				}
				// a scan through the database (its iterators are not closeable, the readers own what they open)
				if _, err := db.Get("key-0-0"); err != nil {
					t.Fatal(err)
				}
				live := len(db.sstableManager.allSSTableReaders)
				f, m := govcDBHandles(dir)
				if f+m > live*3+8 {
					t.Fatalf("REPRODUCED: round %d, open/close cycle %d, flush/compaction cycle %d: %d descriptors and %d mappings under the database directory with %d live tables", round, cycle, c, f, m, live)
				}
			}
			if round == 1 && cycle == 1 {
				// a compaction that fails: damage the newest table's data file, executeCompaction must give back what it opened
				for extra := 0; extra < 2; extra++ {
					n := len(db.sstableManager.allSSTableReaders)
					if err := db.Put(fmt.Sprintf("extra-%d", extra), "x"); err != nil {
						t.Fatal(err)
					}
					govcFlushNow(t, db, n+1)
				}
				rs := db.sstableManager.allSSTableReaders
				if len(rs) < 2 {
					t.Fatalf("driver: expected at least two tables, have %d", len(rs))
				}
				{
					victim := filepath.Join(rs[len(rs)-1].BasePath(), "data.rio")
					if b, err := os.ReadFile(victim); err == nil && len(b) > 20 {
						fBefore, mBefore := govcDBHandles(dir)
						saved := append([]byte{}, b...)
						b[len(b)-3] ^= 0xff
						os.WriteFile(victim, b, 0600)
						_, cerr := executeCompaction(db)
						os.WriteFile(victim, saved, 0600)
						// counted right away: a later garbage collection may run finalizers that hide the leak by chance
						fAfter, mAfter := govcDBHandles(dir)
						if cerr == nil {
							t.Logf("note: the damaged table did not make the compaction fail")
						} else if fAfter > fBefore || mAfter > mBefore {
							t.Fatalf("REPRODUCED: a failed compaction (%v) left %d descriptors / %d mappings open (before: %d / %d)", cerr, fAfter, mAfter, fBefore, mBefore)
						}
						// remove the half-written compaction output so that the next open does not trip over it
						if es, err := os.ReadDir(dir); err == nil {
							for _, e := range es {
								if strings.HasPrefix(e.Name(), SSTableCompactionPathPrefix) {
									os.RemoveAll(filepath.Join(dir, e.Name()))
								}
							}
						}
					}
				}
			}
			if err := db.Close(); err != nil {
				t.Fatal(err)
			}
			if f, m := govcDBHandles(dir); f != 0 || m != 0 {
				t.Fatalf("REPRODUCED: round %d, open/close cycle %d: %d descriptors and %d mappings under the database directory remain after Close", round, cycle, f, m)
			}
		}
		if err := os.RemoveAll(dir); err != nil {
			t.Fatalf("REPRODUCED: the directory cannot be removed after Close: %v", err)
		}
	}
	deadline := time.Now().Add(3 * time.Second)
	for runtime.NumGoroutine() > goroutinesBefore && time.Now().Before(deadline) {
		time.Sleep(10 * time.Millisecond)
	}
	if g := runtime.NumGoroutine(); g > goroutinesBefore {
		t.Fatalf("REPRODUCED: %d goroutines are still running after every database was closed (%d before)", g, goroutinesBefore)
	}
}
