package simpledb

// Replay driver for DB.PutBytes / DB.DeleteBytes (property C17): programs that mix rejected and accepted calls, through both
// API flavours, observed directly, after a clean restart and on a copy of the directory taken without Close (crash image).
// Oracle: a reference map that ignores every call that returned an error; reopening must succeed.

import (
	"bytes"
	"errors"
	"fmt"
	"os"
	"path/filepath"
	"testing"
)

type govcOp struct {
	del  bool
	str  bool // string API
	k, v []byte
}

func govcCopyDir(t *testing.T, src, dst string) {
	_ = filepath.Walk(src, func(p string, info os.FileInfo, err error) error {
		if err != nil {
			return nil
		}
		rel, _ := filepath.Rel(src, p)
		if info.IsDir() {
			return os.MkdirAll(filepath.Join(dst, rel), 0o755)
		}
		data, err := os.ReadFile(p)
		if err == nil {
			_ = os.WriteFile(filepath.Join(dst, rel), data, 0o644)
		}
		return nil
	})
}

func govcCheck(db *DB, ref map[string][]byte, keys [][]byte, when string) string {
	for _, k := range keys {
		if len(k) == 0 {
			continue
		}
		got, err := db.GetBytes(k)
		want, ok := ref[string(k)]
		switch {
		case ok && (err != nil || !bytes.Equal(got, want)):
			return fmt.Sprintf("%s: key %q reads (%q, %v), reference map has %q", when, k, got, err, want)
		case !ok && !errors.Is(err, ErrNotFound):
			return fmt.Sprintf("%s: key %q reads (%q, %v), reference map has no such key", when, k, got, err)
		}
		gs, errS := db.Get(string(k))
		if (errS == nil) != (err == nil) || (err == nil && gs != string(got)) {
			return fmt.Sprintf("%s: Get and GetBytes disagree for key %q: (%q,%v) vs (%q,%v)", when, k, gs, errS, got, err)
		}
	}
	return ""
}

func govcRunProgram(t *testing.T, prog []govcOp) string {
	dir, err := os.MkdirTemp("", "govc_c17")
	if err != nil {
		t.Fatal(err)
	}
	defer os.RemoveAll(dir)
	db, err := NewSimpleDB(dir, DisableCompactions())
	if err != nil {
		t.Fatal(err)
	}
	if err := db.Open(); err != nil {
		t.Fatal(err)
	}
	ref := map[string][]byte{}
	var keys [][]byte
	for i, op := range prog {
		keys = append(keys, op.k)
		var err error
		switch {
		case op.del && op.str:
			err = db.Delete(string(op.k))
		case op.del:
			err = db.DeleteBytes(op.k)
		case op.str:
			err = db.Put(string(op.k), string(op.v))
		default:
			err = db.PutBytes(op.k, op.v)
		}
		invalid := !op.del && (len(op.k) == 0 || len(op.v) == 0)
		if invalid && !errors.Is(err, ErrEmptyKeyValue) {
			return fmt.Sprintf("op %d: put of key %q value %q (nil=%v) must be rejected with ErrEmptyKeyValue, got %v", i, op.k, op.v, op.v == nil, err)
		}
		if err == nil {
			if op.del {
				delete(ref, string(op.k))
			} else {
				ref[string(op.k)] = op.v
			}
		}
		if msg := govcCheck(db, ref, keys, fmt.Sprintf("directly after op %d", i)); msg != "" {
			return msg
		}
	}
	// crash image: copy without Close, reopen the copy
	crash, _ := os.MkdirTemp("", "govc_c17_crash")
	defer os.RemoveAll(crash)
	govcCopyDir(t, dir, crash)
	db2, err := NewSimpleDB(crash, DisableCompactions())
	if err == nil {
		err = db2.Open()
	}
	if err != nil {
		return fmt.Sprintf("recovery of the crash image fails after the program: %v", err)
	}
	if msg := govcCheck(db2, ref, keys, "after crash recovery"); msg != "" {
		return msg
	}
	_ = db2.Close()
	if err := db.Close(); err != nil {
		return fmt.Sprintf("close failed: %v", err)
	}
	db3, err := NewSimpleDB(dir, DisableCompactions())
	if err == nil {
		err = db3.Open()
	}
	if err != nil {
		return fmt.Sprintf("reopen after clean close fails: %v", err)
	}
	defer db3.Close()
	return govcCheck(db3, ref, keys, "after clean restart")
}

func TestReplay_db_rejected_calls(t *testing.T) {
	k1, k2 := []byte("k1"), []byte{0xff, 0xfe}
	v1, v2 := []byte("v1"), []byte("v2")
	progs := [][]govcOp{
		{{k: k1, v: v1}, {k: k1, v: nil}},
		{{k: k1, v: v1}, {k: k1, v: []byte{}}},
		{{k: nil, v: v1}, {k: k1, v: v1}},
		{{k: []byte{}, v: v1}, {k: k2, v: v2}},
		{{k: k1, v: v1}, {str: true, k: k1, v: []byte{}}, {k: k2, v: v2}},
		{{k: k1, v: v1}, {del: true, k: k1}, {k: k1, v: nil}, {k: k2, v: v2}},
		{{k: k2, v: v2}, {del: true, str: true, k: k2}, {k: k2, v: v1}},
		{{k: k1, v: v1}, {del: true, k: []byte("absent")}, {del: true, k: nil}},
	}
	for i, p := range progs {
		if msg := govcRunProgram(t, p); msg != "" {
			t.Fatalf("REPRODUCED: program %d: %s", i, msg)
		}
	}
}
