package wal

// Bounded stand-in / replay driver for property C07: programs of Append / AppendSync / Rotate over records of several sizes
// (empty, small, larger than the file size limit, larger than the write buffer) under several size limits run against the
// real appender. After every step the log directory is copied ("kill now": everything handed to the OS survives a process
// kill), additionally the newest file is cut at every length down to what the last returned synchronous append covers
// (a kill inside a write). Replay of every copy must succeed and deliver a prefix of the appended records that contains
// every record whose synchronous append had returned. A second pass injects a failing writer factory at every rotation:
// a record whose append reported an error must not be replayed.

import (
	"bytes"
	"errors"
	"fmt"
	"os"
	"path/filepath"
	"sort"
	"testing"

	"github.com/thomasjungblut/go-sstables/recordio"
)

type govcWalOp struct {
	kind byte // 'a' append, 's' append sync, 'r' rotate
	rec  int  // record kind
}

func govcWalRecord(kind, seq int) []byte {
	switch kind {
	case 0:
		return []byte{}
	case 1:
		return []byte(fmt.Sprintf("rec-%03d", seq))
	case 2:
		return bytes.Repeat([]byte{byte('A' + seq%26)}, 300) // larger than the small size limits
	default:
		return bytes.Repeat([]byte{byte('a' + seq%26), 0x91, 0x8d, 0x4c}, 1500) // larger than the write buffer (4096)
	}
}

func govcWalSnapshot(t *testing.T, dir string) map[string][]byte {
	out := map[string][]byte{}
	es, err := os.ReadDir(dir)
	if err != nil {
		t.Fatal(err)
	}
	for _, e := range es {
		b, err := os.ReadFile(filepath.Join(dir, e.Name()))
		if err != nil {
			t.Fatal(err)
		}
		out[e.Name()] = b
	}
	return out
}

func govcWalReplay(t *testing.T, files map[string][]byte) ([][]byte, error) {
	dir, err := os.MkdirTemp("", "govc_walr")
	if err != nil {
		t.Fatal(err)
	}
	defer os.RemoveAll(dir)
	for n, b := range files {
		if err := os.WriteFile(filepath.Join(dir, n), b, 0600); err != nil {
			t.Fatal(err)
		}
	}
	opts, err := NewWriteAheadLogOptions(BasePath(dir))
	if err != nil {
		t.Fatal(err)
	}
	rp, err := NewReplayer(opts)
	if err != nil {
		return nil, err
	}
	var got [][]byte
	err = rp.Replay(func(r []byte) error {
		got = append(got, append([]byte{}, r...))
		return nil
	})
	return got, err
}

func govcWalPrograms(thorough bool) [][]govcWalOp {
	var progs [][]govcWalOp
	kinds := []byte{'a', 's', 'r'}
	var rec func(p []govcWalOp, depth int)
	maxLen := 3
	if thorough {
		maxLen = 4
	}
	rec = func(p []govcWalOp, depth int) {
		if len(p) > 0 {
			progs = append(progs, append([]govcWalOp{}, p...))
		}
		if depth == maxLen {
			return
		}
		for _, k := range kinds {
			if k == 'r' {
				rec(append(p, govcWalOp{k, 0}), depth+1)
				continue
			}
			for r := 0; r < 4; r++ {
				rec(append(p, govcWalOp{k, r}), depth+1)
			}
		}
	}
	rec(nil, 0)
	return progs
}

func TestReplay_wal_model(t *testing.T) {
	thorough := os.Getenv("GOVC_TIER") == "thorough"
	progs := govcWalPrograms(thorough)
	limits := []uint64{64, 400, 1 << 20}
	n := 0
	for pi, prog := range progs {
		if !thorough && pi%11 != 0 && len(prog) == 3 {
			continue // quick tier: every eleventh program of full length
		}
		if thorough && pi%80 != 0 && len(prog) == 4 {
			continue // thorough tier: all programs up to length 3, every eightieth of length 4
		}
		for _, limit := range limits {
			for failAt := -1; failAt < 3; failAt++ { // -1: no injected fault; k: the k-th writer creation after the first fails
				if failAt >= 0 && (limit == 1<<20 || !thorough && pi%5 != 0) {
					continue
				}
				n++
				govcWalRun(t, prog, limit, failAt, thorough)
			}
		}
	}
	t.Logf("wal_model: %d program runs", n)
}

func govcWalRun(t *testing.T, prog []govcWalOp, limit uint64, failAt int, thorough bool) {
	dir, err := os.MkdirTemp("", "govc_wal")
	if err != nil {
		t.Fatal(err)
	}
	defer os.RemoveAll(dir)
	created := 0
	opts, err := NewWriteAheadLogOptions(BasePath(dir), MaximumWalFileSizeBytes(limit),
		WriterFactory(func(path string) (recordio.WriterI, error) {
			created++
			if failAt >= 0 && created-2 == failAt {
				return nil, errors.New("injected: cannot create the next log file")
			}
			return recordio.NewFileWriter(recordio.Path(path), recordio.BufferSizeBytes(4096))
		}))
	if err != nil {
		t.Fatal(err)
	}
	app, err := NewAppender(opts)
	if err != nil {
		t.Fatal(err)
	}
	desc := func() string {
		s := fmt.Sprintf("limit %d, writer creation fault %d, program", limit, failAt)
		for _, op := range prog {
			s += fmt.Sprintf(" %c%d", op.kind, op.rec)
		}
		return s
	}
	var accepted [][]byte // records whose append returned nil, in order
	var rejected [][]byte
	syncedUpTo := 0 // number of accepted records covered by a returned synchronous append
	check := func(step int, files map[string][]byte, what string) {
		got, err := govcWalReplay(t, files)
		if err != nil {
			t.Fatalf("REPRODUCED: %s: replay of the log as left by a kill %s (after step %d) failed: %v", desc(), what, step, err)
		}
		if len(got) > len(accepted)+len(rejected) {
			t.Fatalf("REPRODUCED: %s: replay after step %d delivered %d records, only %d were appended", desc(), step, len(got), len(accepted))
		}
		ai := 0
		for i, g := range got {
			// every replayed record is the next accepted one (a rejected append must not surface)
			if ai < len(accepted) && bytes.Equal(g, accepted[ai]) {
				ai++
				continue
			}
			for _, rj := range rejected {
				if bytes.Equal(g, rj) {
					t.Fatalf("REPRODUCED: %s: replay after step %d delivered record %d (%d bytes) whose append had reported an error", desc(), step, i, len(g))
				}
			}
			t.Fatalf("REPRODUCED: %s: replay after step %d: record %d (%d bytes) is not the next appended record (order / content)", desc(), step, i, len(g))
		}
		if ai < syncedUpTo {
			t.Fatalf("REPRODUCED: %s: replay of the log as left by a kill %s (after step %d) delivered %d records, %d had been appended synchronously (or before such an append)", desc(), what, step, ai, syncedUpTo)
		}
	}
	var syncedFiles map[string][]byte
	for step, op := range prog {
		rec := govcWalRecord(op.rec, step)
		var err error
		switch op.kind {
		case 'a':
			err = app.Append(rec)
		case 's':
			err = app.AppendSync(rec)
		case 'r':
			_, err = app.Rotate()
		}
		if op.kind != 'r' {
			if err == nil {
				accepted = append(accepted, rec)
			} else {
				rejected = append(rejected, rec)
			}
		}
		if err != nil && failAt < 0 {
			t.Fatalf("REPRODUCED: %s: step %d failed without an injected fault: %v", desc(), step, err)
		}
		if op.kind == 's' && err == nil {
			syncedUpTo = len(accepted)
		}
		snap := govcWalSnapshot(t, dir)
		check(step, snap, "right after the call returned")
		if op.kind == 's' && err == nil {
			syncedFiles = snap
		}
		// a kill inside a later write leaves any prefix of the newest file that still covers what was synced
		var names []string
		for nme := range snap {
			names = append(names, nme)
		}
		sort.Strings(names)
		if len(names) > 0 {
			last := names[len(names)-1]
			floor := 0
			if b, ok := syncedFiles[last]; ok {
				floor = len(b)
			} else if len(syncedFiles) > 0 && len(names) > len(syncedFiles) {
				floor = 0
			} else if len(syncedFiles) > 0 {
				continue
			}
			full := snap[last]
			var cuts []int
			if thorough { // about 12 evenly spaced cut points, plus both ends of the window
				stepCut := (len(full) - floor) / 12
				if stepCut < 1 {
					stepCut = 1
				}
				for cut := len(full) - 1; cut >= floor; cut -= stepCut {
					cuts = append(cuts, cut)
				}
				cuts = append(cuts, floor, floor+1)
			} else { // quick tier: the ends of the window and a few points inside
				span := len(full) - floor
				for _, c := range []int{floor, floor + 1, floor + 3, floor + 9, len(full) - 1, len(full) - 2, len(full) - 7, floor + span/2, floor + span/3} {
					if c >= floor && c < len(full) {
						cuts = append(cuts, c)
					}
				}
			}
			seen := map[int]bool{}
			for _, cut := range cuts {
				if seen[cut] || cut < floor || cut >= len(full) {
					continue
				}
				seen[cut] = true
				snap[last] = full[:cut]
				check(step, snap, fmt.Sprintf("that cut the newest file at %d of %d bytes", cut, len(full)))
			}
			snap[last] = full
		}
		if err != nil {
			break // the appender is not used after a failed rotation
		}
	}
	_ = app.Close()
	syncedUpTo = len(accepted)
	check(len(prog), govcWalSnapshot(t, dir), "after Close")
}
