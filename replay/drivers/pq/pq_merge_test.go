package pq

// Bounded stand-in / replay driver for the priority queue (property C16): all ways to distribute up to 6 ascending keys over
// up to 3 inputs (with duplicates across inputs), under two consistent comparators, are merged by the real queue; the output
// must contain every element of every input exactly once, in non-descending key order, with the identity of its input; a
// failing input (error other than Done at any position) must surface as an error.

import (
	"errors"
	"fmt"
	"sort"
	"testing"
)

type govcIn struct {
	keys  []int
	ctx   int
	pos   int
	errAt int
}

var errGovcIn = errors.New("injected input failure")

func (s *govcIn) Next() (int, string, error) {
	i := s.pos
	s.pos++
	if i == s.errAt {
		return 0, "", errGovcIn
	}
	if i >= len(s.keys) {
		return 0, "", Done
	}
	return s.keys[i], fmt.Sprintf("%d@%d", s.keys[i], s.ctx), nil
}
func (s *govcIn) Context() int { return s.ctx }

type govcDiff struct{}

func (govcDiff) Compare(a, b int) int { return (a - b) * 7 }

type govcOrd struct{}

func (govcOrd) Compare(a, b int) int {
	if a < b {
		return -1
	} else if a > b {
		return 1
	}
	return 0
}

func TestReplay_pq_merge(t *testing.T) {
	type cmpI interface{ Compare(a, b int) int }
	for _, cmp := range []cmpI{govcOrd{}, govcDiff{}} {
		for total := 0; total <= 6; total++ {
			// assign each of the keys 0..total-1 (with one duplicate key value) to one of 3 inputs: 3^total distributions
			n := 1
			for i := 0; i < total; i++ {
				n *= 3
			}
			for code := 0; code < n; code++ {
				lists := [3][]int{}
				c := code
				for k := 0; k < total; k++ {
					lists[c%3] = append(lists[c%3], k/2) // k/2: every key value occurs twice
					c /= 3
				}
				var ins []IteratorWithContext[int, string, int]
				var all []string
				for i := range lists {
					sort.Ints(lists[i])
					ins = append(ins, &govcIn{keys: lists[i], ctx: i, errAt: -1})
					for _, k := range lists[i] {
						all = append(all, fmt.Sprintf("%d@%d", k, i))
					}
				}
				q, err := NewPriorityQueue[int, string, int](cmp, ins)
				if err != nil {
					t.Fatalf("REPRODUCED: inputs %v: constructor failed: %v", lists, err)
				}
				var got []string
				prev := -1
				for {
					k, v, ctx, err := q.Next()
					if errors.Is(err, Done) {
						break
					}
					if err != nil {
						t.Fatalf("REPRODUCED: inputs %v: unexpected error %v", lists, err)
					}
					if k < prev {
						t.Fatalf("REPRODUCED: inputs %v (comparator %T): key %d delivered after %d", lists, cmp, k, prev)
					}
					prev = k
					if v != fmt.Sprintf("%d@%d", k, ctx) {
						t.Fatalf("REPRODUCED: inputs %v: element %q delivered with key %d and context %d", lists, v, k, ctx)
					}
					got = append(got, v)
				}
				sort.Strings(got)
				sort.Strings(all)
				if fmt.Sprint(got) != fmt.Sprint(all) {
					t.Fatalf("REPRODUCED: inputs %v (comparator %T): delivered %v, inputs hold %v", lists, cmp, got, all)
				}
				// single faults at every position of every input
				for fi := range lists {
					for at := 0; at <= len(lists[fi]); at++ {
						var ins []IteratorWithContext[int, string, int]
						for i := range lists {
							e := -1
							if i == fi {
								e = at
							}
							ins = append(ins, &govcIn{keys: lists[i], ctx: i, errAt: e})
						}
						q, err := NewPriorityQueue[int, string, int](cmp, ins)
						for err == nil {
							_, _, _, err = q.Next()
						}
						if errors.Is(err, Done) || !errors.Is(err, errGovcIn) {
							t.Fatalf("REPRODUCED: inputs %v: input %d fails at its read %d but the queue ended with %v", lists, fi, at, err)
						}
					}
				}
			}
		}
	}
}
