// govc: contract verifier for the go-sstables repository (VC generation over go/ssa, SMT back ends).
package main

import (
	"flag"
	"fmt"
	"os"
	"path/filepath"
	"sort"
	"strings"
	"time"

	"govc/internal/load"
	"govc/internal/run"
)

var defaultPkgs = []string{"./recordio/...", "./sstables/...", "./simpledb", "./simpledb/proto", "./memstore", "./wal/...", "./pq", "./skiplist", "./kaitai/gokaitai"}

func usage() {
	fmt.Fprintln(os.Stderr, `usage:
  govc check  --property Cxx [--tier quick|thorough] [--seed N]     decide one property (MANIFEST commands)
  govc verify [--func substr] [--prop Cxx] [--safety] [-v]          development: run obligations of matching contracts
  govc list                                                         contracts, bindings, properties
  govc replay <file>                                                re-run the replay recorded in a replay file
  govc selftest [--property Cxx]                                    must-fail corpus: every mutant has to be caught`)
	os.Exit(2)
}

func main() {
	if len(os.Args) < 2 {
		usage()
	}
	cmd := os.Args[1]
	fs := flag.NewFlagSet(cmd, flag.ExitOnError)
	repo := fs.String("repo", "/repo", "repository root")
	verif := fs.String("verif", "", "verification root (default: directory above the binary)")
	prop := fs.String("property", "", "property id")
	prop2 := fs.String("prop", "", "property id (verify)")
	tier := fs.String("tier", envOr("VERIF_TIER", "quick"), "quick or thorough")
	seed := fs.Int("seed", envInt("VERIF_SEED", 0), "seed")
	only := fs.String("func", "", "only functions whose key contains this")
	safety := fs.Bool("safety", false, "emit safety obligations for every function")
	verbose := fs.Bool("v", false, "verbose")
	timeout := fs.Duration("timeout", 0, "per obligation limit (default by tier)")
	keep := fs.Bool("keep", false, "keep SMT scripts")
	noev := fs.Bool("noevidence", false, "do not write the evidence file (selftest runs)")
	outdir := fs.String("outdir", "", "scratch directory (default <verif>/out)")
	fs.Parse(os.Args[2:])
	root := *verif
	if root == "" {
		exe, _ := os.Executable()
		root = filepath.Dir(filepath.Dir(exe))
	}
	cfg := run.Config{Repo: *repo, Verif: root, Tier: *tier, Seed: *seed, Verbose: *verbose, Timeout: *timeout, KeepScripts: *keep, Safety: *safety, Pkgs: defaultPkgs, NoEvidence: *noev, OutDir: *outdir}
	switch cmd {
	case "check":
		if *prop == "" {
			usage()
		}
		os.Exit(run.Check(cfg, *prop))
	case "verify":
		os.Exit(run.Verify(cfg, *only, *prop2))
	case "list":
		t0 := time.Now()
		p, err := run.LoadAll(cfg)
		if err != nil {
			fmt.Println("load error:", err)
			os.Exit(2)
		}
		for _, e := range p.Errors {
			fmt.Println("contract error:", e)
		}
		var keys []string
		for k := range p.Contracts {
			keys = append(keys, k)
		}
		sort.Strings(keys)
		for _, k := range keys {
			c := p.Contracts[k]
			bound := "bound"
			if c.Kind == "func" && p.Funcs[k] == nil {
				bound = "UNBOUND"
			}
			tr := ""
			if c.Trusted {
				tr = " trusted"
			}
			fmt.Printf("%-5s %-8s%s %s  props=%s  (%s:%d)\n", c.Kind, bound, tr, k, strings.Join(c.Props, ","), filepath.Base(c.File), c.Line)
		}
		for _, l := range p.Lemmas {
			fmt.Printf("lemma %s props=%s\n", l.Name, strings.Join(l.Props, ","))
		}
		fmt.Printf("%d contracts, %d lemmas, %d functions indexed, %.1fs\n", len(p.Contracts), len(p.Lemmas), len(p.Funcs), time.Since(t0).Seconds())
	case "replay":
		if fs.NArg() < 1 {
			usage()
		}
		os.Exit(run.Replay(cfg, fs.Arg(0)))
	case "selftest":
		os.Exit(run.Selftest(cfg, *prop))
	default:
		usage()
	}
	_ = load.FuncKey
}

func envOr(k, d string) string {
	if v := os.Getenv(k); v != "" {
		return v
	}
	return d
}

func envInt(k string, d int) int {
	if v := os.Getenv(k); v != "" {
		n := 0
		neg := false
		for i, c := range v {
			if i == 0 && c == '-' {
				neg = true
				continue
			}
			if c < '0' || c > '9' {
				return d
			}
			n = n*10 + int(c-'0')
		}
		if neg {
			n = -n
		}
		return n
	}
	return d
}
