package main

import (
	"flag"
	"fmt"
	"os"
	"sort"
	"strings"
	"sync"
	"time"

	"govc/internal/load"
	"govc/internal/solve"
	"govc/internal/sym"
)

func main() {
	repo := flag.String("repo", "/repo", "repository root")
	pkgs := flag.String("pkgs", "./...", "comma separated package patterns")
	contracts := flag.String("contracts", "", "comma separated extra contract files")
	only := flag.String("func", "", "only functions whose key contains this")
	out := flag.String("out", "/tmp/govc-out", "scratch dir for smt scripts")
	safety := flag.Bool("safety", false, "emit safety obligations")
	timeout := flag.Duration("timeout", 10*time.Second, "per obligation")
	verbose := flag.Bool("v", false, "verbose")
	flag.Parse()
	os.MkdirAll(*out, 0o755)
	var extra []string
	if *contracts != "" {
		extra = strings.Split(*contracts, ",")
	}
	t0 := time.Now()
	p, err := load.Load(*repo, strings.Split(*pkgs, ","), "verif", extra)
	if err != nil {
		fmt.Println("load error:", err)
		os.Exit(2)
	}
	for _, e := range p.Errors {
		fmt.Println("contract error:", e)
	}
	fmt.Printf("loaded in %.1fs: %d functions, %d contracts\n", time.Since(t0).Seconds(), len(p.Funcs), len(p.Contracts))
	var keys []string
	for k, c := range p.Contracts {
		if c.Kind == "func" && !c.Trusted && strings.Contains(k, *only) {
			keys = append(keys, k)
		}
	}
	sort.Strings(keys)
	type job struct {
		x *sym.Exec
		o *sym.Obligation
		r solve.Result
	}
	var jobs []*job
	for _, k := range keys {
		fn := p.Funcs[k]
		if fn == nil {
			fmt.Printf("UNBOUND contract %s\n", k)
			continue
		}
		x := sym.New(p, fn, p.Contracts[k], sym.Options{Safety: *safety})
		x.Run()
		for _, d := range x.Diag {
			fmt.Printf("  diag %s: %s\n", k[strings.LastIndex(k, "/")+1:], d)
		}
		for _, o := range x.Obls {
			jobs = append(jobs, &job{x: x, o: o})
		}
	}
	var mu sync.Mutex
	var fs []func()
	for i, j := range jobs {
		i, j := i, j
		script := j.x.Script(j.o) // rendered sequentially: the declaration context is not thread-safe
		fs = append(fs, func() {
			r := solve.Race(script, *out, fmt.Sprintf("ob%04d", i), *timeout, j.o.Cover)
			mu.Lock()
			j.r = r
			mu.Unlock()
		})
	}
	solve.Pool(16, fs)
	okN, bad := 0, 0
	for i, j := range jobs {
		want := "unsat"
		if j.o.Cover {
			want = "sat"
		}
		status := "ok  "
		if j.r.Answer != want {
			status = "FAIL"
			bad++
		} else {
			okN++
		}
		if *verbose || status == "FAIL" {
			fmt.Printf("%s ob%04d %-7s %-6s %5.2fs %s\n      %s\n", status, i, j.r.Answer, j.r.Solver, j.r.Time.Seconds(), j.o.Name, j.o.Source)
		}
	}
	fmt.Printf("obligations: %d, as expected: %d, failed: %d, wall %.1fs\n", len(jobs), okN, bad, time.Since(t0).Seconds())
	if bad > 0 {
		os.Exit(1)
	}
}
