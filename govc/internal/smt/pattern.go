package smt

import (
	"sort"
	"strings"
)

// ---------- trigger (pattern) inference for universally quantified facts
//
// Contract quantifiers are written without triggers. Leaving the choice to the solvers proved unstable (the same goal
// flips between unsat and timeout when unrelated axioms are added), so every forall that goes into a script gets explicit
// :pattern annotations chosen here: applications of uninterpreted functions and array reads that mention the bound
// variables, preferring terms without arithmetic, falling back to a multi-pattern that covers all variables.

type sx struct {
	atom string
	kids []*sx
}

func parseSx(s string) *sx {
	pos := 0
	var rec func() *sx
	rec = func() *sx {
		for pos < len(s) && (s[pos] == ' ' || s[pos] == '\n' || s[pos] == '\t') {
			pos++
		}
		if pos >= len(s) {
			return nil
		}
		if s[pos] == '(' {
			pos++
			n := &sx{}
			for {
				for pos < len(s) && (s[pos] == ' ' || s[pos] == '\n' || s[pos] == '\t') {
					pos++
				}
				if pos >= len(s) {
					return n
				}
				if s[pos] == ')' {
					pos++
					return n
				}
				k := rec()
				if k == nil {
					return n
				}
				n.kids = append(n.kids, k)
			}
		}
		start := pos
		if s[pos] == '|' {
			pos++
			for pos < len(s) && s[pos] != '|' {
				pos++
			}
			pos++
		} else {
			for pos < len(s) && s[pos] != ' ' && s[pos] != ')' && s[pos] != '(' && s[pos] != '\n' {
				pos++
			}
		}
		return &sx{atom: s[start:pos]}
	}
	return rec()
}

func (n *sx) String() string {
	if n.kids == nil && n.atom != "" {
		return n.atom
	}
	var b strings.Builder
	b.WriteString("(")
	for i, k := range n.kids {
		if i > 0 {
			b.WriteString(" ")
		}
		b.WriteString(k.String())
	}
	b.WriteString(")")
	return b.String()
}

var interpreted = map[string]bool{"and": true, "or": true, "not": true, "=>": true, "=": true, "<": true, "<=": true, ">": true, ">=": true,
	"+": true, "-": true, "*": true, "ite": true, "div": true, "mod": true, "let": true, "forall": true, "exists": true, "distinct": true,
	"store": true, "!": true, "as": true, "true": true, "false": true, "mkslice": true}

var arith = map[string]bool{"+": true, "-": true, "*": true, "div": true, "mod": true, "ite": true}

// vars used in a tree
func (n *sx) vars(bound map[string]bool, out map[string]bool) {
	if n.kids == nil {
		if bound[n.atom] {
			out[n.atom] = true
		}
		return
	}
	for _, k := range n.kids {
		k.vars(bound, out)
	}
}

func (n *sx) hasArith() bool {
	if n.kids == nil {
		return false
	}
	if len(n.kids) > 0 && n.kids[0].kids == nil && arith[n.kids[0].atom] {
		return true
	}
	for _, k := range n.kids {
		if k.hasArith() {
			return true
		}
	}
	return false
}

func (n *sx) hasQuant() bool {
	if n.kids == nil {
		return false
	}
	if len(n.kids) > 0 && n.kids[0].kids == nil && (n.kids[0].atom == "forall" || n.kids[0].atom == "exists" || n.kids[0].atom == "let") {
		return true
	}
	for _, k := range n.kids {
		if k.hasQuant() {
			return true
		}
	}
	return false
}

type cand struct {
	text  string
	vars  map[string]bool
	arith bool
	size  int
}

func collect(n *sx, bound map[string]bool, out *[]cand, insideNested bool) {
	if n.kids == nil || len(n.kids) == 0 {
		return
	}
	head := n.kids[0]
	if head.kids == nil && (head.atom == "forall" || head.atom == "exists") {
		// do not descend into nested quantifiers: their terms mention other bound variables
		return
	}
	isApp := head.kids == nil && !interpreted[head.atom]
	isSelect := head.kids == nil && head.atom == "select"
	if (isApp || isSelect) && !n.hasQuant() {
		vs := map[string]bool{}
		n.vars(bound, vs)
		if len(vs) > 0 && !strings.Contains(n.String(), "(ite ") && !strings.Contains(n.String(), "(store ") {
			// a select whose array operand is itself a select chain is taken whole; plain accessor applications on a
			// bound variable alone (s.len x) are poor triggers but allowed as a last resort
			*out = append(*out, cand{text: n.String(), vars: vs, arith: n.hasArith(), size: len(n.String())})
		}
	}
	for _, k := range n.kids {
		collect(k, bound, out, insideNested)
	}
}

// Patterns returns the :pattern groups for (forall (decls) body), or nil if nothing suitable is found.
func Patterns(boundNames []string, body string) [][]string {
	bound := map[string]bool{}
	for _, b := range boundNames {
		bound[b] = true
	}
	tree := parseSx(body)
	if tree == nil {
		return nil
	}
	var cs []cand
	collect(tree, bound, &cs, false)
	if len(cs) == 0 {
		return nil
	}
	// dedupe
	seen := map[string]bool{}
	var uniq []cand
	for _, c := range cs {
		if !seen[c.text] {
			seen[c.text] = true
			uniq = append(uniq, c)
		}
	}
	// drop candidates that are proper subterms' supersets: prefer smaller terms covering the same variables
	sort.SliceStable(uniq, func(i, j int) bool {
		if uniq[i].arith != uniq[j].arith {
			return !uniq[i].arith
		}
		return uniq[i].size < uniq[j].size
	})
	full := func(c cand) bool { return len(c.vars) == len(bound) }
	var pats [][]string
	// single-term patterns covering all variables: minimal ones only (skip a term that contains an already chosen term)
	for _, c := range uniq {
		if !full(c) {
			continue
		}
		contains := false
		for _, p := range pats {
			if strings.Contains(c.text, p[0]) {
				contains = true
			}
		}
		if contains {
			continue
		}
		pats = append(pats, []string{c.text})
		if len(pats) >= 4 {
			break
		}
	}
	if len(pats) > 0 {
		// with several bound variables also offer a multi-pattern of the smallest single-variable terms: it fires on any
		// combination of element reads, which is what "sorted" / "pairwise" facts need
		if len(bound) >= 2 {
			var group []string
			got := map[string]bool{}
			for _, c := range uniq {
				if len(c.vars) == 1 {
					for v := range c.vars {
						if !got[v] && !strings.HasPrefix(c.text, "(s.") {
							got[v] = true
							group = append(group, c.text)
						}
					}
				}
			}
			if len(got) == len(bound) {
				pats = append(pats, group)
			}
		}
		return pats
	}
	// multi-pattern: greedy cover
	covered := map[string]bool{}
	var group []string
	for len(covered) < len(bound) {
		best := -1
		gain := 0
		for i, c := range uniq {
			g := 0
			for v := range c.vars {
				if !covered[v] {
					g++
				}
			}
			if g > gain {
				best, gain = i, g
			}
		}
		if best < 0 {
			return nil
		}
		group = append(group, uniq[best].text)
		for v := range uniq[best].vars {
			covered[v] = true
		}
	}
	return [][]string{group}
}

// Forall builds a universally quantified formula with inferred triggers.
func Forall(decls [][2]string, body T) T {
	var ds, names []string
	for _, d := range decls {
		ds = append(ds, "("+d[0]+" "+d[1]+")")
		names = append(names, d[0])
	}
	pats := Patterns(names, body.S)
	if len(pats) == 0 {
		return T{"(forall (" + strings.Join(ds, " ") + ") " + body.S + ")", Bool}
	}
	var b strings.Builder
	b.WriteString("(forall (" + strings.Join(ds, " ") + ") (! " + body.S)
	for _, p := range pats {
		b.WriteString(" :pattern (" + strings.Join(p, " ") + ")")
	}
	b.WriteString("))")
	return T{b.String(), Bool}
}
