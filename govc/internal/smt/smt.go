// Package smt is a tiny SMT-LIB2 term builder: terms are printed strings with a sort tag.
package smt

import (
	"fmt"
	"sort"
	"strings"
)

// T is an SMT term.
type T struct {
	S    string // SMT-LIB text
	Sort string // SMT-LIB sort text
}

func (t T) String() string { return t.S }

const (
	Bool = "Bool"
	Int  = "Int"
)

func Raw(s, sort string) T { return T{s, sort} }
func IntLit(n int64) T {
	if n < 0 {
		return T{fmt.Sprintf("(- %d)", -n), Int}
	}
	return T{fmt.Sprintf("%d", n), Int}
}
func IntLitS(dec string) T {
	if strings.HasPrefix(dec, "-") {
		return T{"(- " + dec[1:] + ")", Int}
	}
	return T{dec, Int}
}
func BoolLit(b bool) T {
	if b {
		return True
	}
	return False
}

var True = T{"true", Bool}
var False = T{"false", Bool}

func App(sort, op string, args ...T) T {
	if len(args) == 0 {
		return T{op, sort}
	}
	var b strings.Builder
	b.WriteString("(")
	b.WriteString(op)
	for _, a := range args {
		b.WriteString(" ")
		b.WriteString(a.S)
	}
	b.WriteString(")")
	return T{b.String(), sort}
}

func Not(a T) T {
	if a.S == "true" {
		return False
	}
	if a.S == "false" {
		return True
	}
	return App(Bool, "not", a)
}
func And(as ...T) T {
	var keep []T
	for _, a := range as {
		if a.S == "true" {
			continue
		}
		if a.S == "false" {
			return False
		}
		keep = append(keep, a)
	}
	switch len(keep) {
	case 0:
		return True
	case 1:
		return keep[0]
	}
	return App(Bool, "and", keep...)
}
func Or(as ...T) T {
	var keep []T
	for _, a := range as {
		if a.S == "false" {
			continue
		}
		if a.S == "true" {
			return True
		}
		keep = append(keep, a)
	}
	switch len(keep) {
	case 0:
		return False
	case 1:
		return keep[0]
	}
	return App(Bool, "or", keep...)
}
func Implies(a, b T) T {
	if a.S == "true" {
		return b
	}
	return App(Bool, "=>", a, b)
}
func Eq(a, b T) T                  { return App(Bool, "=", a, b) }
func Ite(c, a, b T) T              { return App(a.Sort, "ite", c, a, b) }
func Lt(a, b T) T                  { return App(Bool, "<", a, b) }
func Le(a, b T) T                  { return App(Bool, "<=", a, b) }
func Add(a, b T) T                 { return App(Int, "+", a, b) }
func Sub(a, b T) T                 { return App(Int, "-", a, b) }
func Mul(a, b T) T                 { return App(Int, "*", a, b) }
func Select(a, i T) T              { return App(elemSort(a.Sort), "select", a, i) }
func Store(a, i, v T) T            { return App(a.Sort, "store", a, i, v) }
func ArraySort(i, e string) string { return "(Array " + i + " " + e + ")" }

// elemSort returns the element sort of "(Array I E)".
func elemSort(arr string) string {
	if !strings.HasPrefix(arr, "(Array ") {
		panic("not an array sort: " + arr)
	}
	body := arr[len("(Array ") : len(arr)-1]
	// split index sort and element sort at top-level space
	depth := 0
	for i, c := range body {
		switch c {
		case '(':
			depth++
		case ')':
			depth--
		case ' ':
			if depth == 0 {
				return body[i+1:]
			}
		}
	}
	panic("bad array sort: " + arr)
}

// Ctx collects declarations for one function's obligations.
type Ctx struct {
	decls    map[string]string // name -> full declaration line
	order    []string
	fresh    map[string]int
	Prelude  []string
	datatype map[string]bool
}

func NewCtx() *Ctx {
	return &Ctx{decls: map[string]string{}, fresh: map[string]int{}, datatype: map[string]bool{}}
}

// Sym quotes a symbol if needed.
func Sym(name string) string {
	ok := true
	for _, c := range name {
		if !(c >= 'a' && c <= 'z' || c >= 'A' && c <= 'Z' || c >= '0' && c <= '9' || strings.ContainsRune("_.$!%&*+-/<=>?@^~", c)) {
			ok = false
		}
	}
	if ok && name != "" && !(name[0] >= '0' && name[0] <= '9') {
		return name
	}
	return "|" + strings.ReplaceAll(name, "|", "!") + "|"
}

func (c *Ctx) Const(name, sort string) T {
	s := Sym(name)
	if _, ok := c.decls[s]; !ok {
		c.decls[s] = fmt.Sprintf("(declare-const %s %s)", s, sort)
		c.order = append(c.order, s)
	}
	return T{s, sort}
}

func (c *Ctx) Fresh(base, sort string) T {
	c.fresh[base]++
	return c.Const(fmt.Sprintf("%s!%d", base, c.fresh[base]), sort)
}

func (c *Ctx) Fun(name string, args []string, ret string) string {
	s := Sym(name)
	if _, ok := c.decls[s]; !ok {
		c.decls[s] = fmt.Sprintf("(declare-fun %s (%s) %s)", s, strings.Join(args, " "), ret)
		c.order = append(c.order, s)
	}
	return s
}

func (c *Ctx) Sort(name string) string {
	s := Sym(name)
	key := "sort:" + s
	if _, ok := c.decls[key]; !ok {
		c.decls[key] = fmt.Sprintf("(declare-sort %s 0)", s)
		c.order = append(c.order, key)
	}
	return s
}

func (c *Ctx) Datatype(name string, ctor string, fields [][2]string) {
	key := "dt:" + name
	if _, ok := c.decls[key]; ok {
		return
	}
	var fs []string
	for _, f := range fields {
		fs = append(fs, fmt.Sprintf("(%s %s)", f[0], f[1]))
	}
	c.decls[key] = fmt.Sprintf("(declare-datatypes ((%s 0)) (((%s %s))))", name, ctor, strings.Join(fs, " "))
	c.order = append(c.order, key)
}

func (c *Ctx) Decls() string {
	var b strings.Builder
	// sorts and datatypes first, in insertion order; then the rest
	for _, k := range c.order {
		if strings.HasPrefix(k, "sort:") {
			b.WriteString(c.decls[k] + "\n")
		}
	}
	for _, k := range c.order {
		if strings.HasPrefix(k, "dt:") {
			b.WriteString(c.decls[k] + "\n")
		}
	}
	for _, k := range c.order {
		if !strings.HasPrefix(k, "sort:") && !strings.HasPrefix(k, "dt:") {
			b.WriteString(c.decls[k] + "\n")
		}
	}
	return b.String()
}

// SortedKeys is a helper for deterministic iteration.
func SortedKeys[V any](m map[string]V) []string {
	ks := make([]string, 0, len(m))
	for k := range m {
		ks = append(ks, k)
	}
	sort.Strings(ks)
	return ks
}
