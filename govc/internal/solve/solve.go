// Package solve runs SMT solvers on scripts.
package solve

import (
	"bytes"
	"context"
	"os"
	"os/exec"
	"path/filepath"
	"strings"
	"sync"
	"time"
)

type Result struct {
	Answer string // unsat sat unknown timeout error
	Solver string
	Time   time.Duration
	Output string
}

type solver struct {
	name string
	argv []string
}

var solvers = []solver{
	{"z3-new", []string{"z3-new"}},
	{"z3", []string{"z3"}},
	{"cvc5", []string{"cvc5", "--full-saturate-quant"}},
}

func run1(ctx context.Context, s solver, file string) Result {
	start := time.Now()
	cmd := exec.CommandContext(ctx, s.argv[0], append(s.argv[1:], file)...)
	var out bytes.Buffer
	cmd.Stdout = &out
	cmd.Stderr = &out
	err := cmd.Run()
	r := Result{Solver: s.name, Time: time.Since(start), Output: out.String()}
	first := strings.TrimSpace(strings.SplitN(out.String(), "\n", 2)[0])
	switch first {
	case "unsat", "sat", "unknown":
		r.Answer = first
	default:
		if ctx.Err() != nil {
			r.Answer = "timeout"
		} else if err != nil || first != "" {
			r.Answer = "error"
		} else {
			r.Answer = "timeout"
		}
	}
	return r
}

// Race runs all solvers on the script; returns the first decisive answer (unsat, or sat when wantSat) or the best other.
func Race(script string, dir, name string, timeout time.Duration, wantSat bool) Result {
	file := filepath.Join(dir, name+".smt2")
	_ = os.WriteFile(file, []byte(script), 0o644)
	ctx, cancel := context.WithTimeout(context.Background(), timeout)
	defer cancel()
	ch := make(chan Result, len(solvers))
	for _, s := range solvers {
		go func(s solver) { ch <- run1(ctx, s, file) }(s)
	}
	var best Result
	for range solvers {
		r := <-ch
		if r.Answer == "unsat" || r.Answer == "sat" {
			cancel()
			return r
		}
		if best.Answer == "" || best.Answer == "timeout" || (best.Answer == "error" && r.Answer != "error") {
			best = r
		}
	}
	return best
}

// Pool runs jobs with bounded parallelism.
func Pool(n int, jobs []func()) {
	var wg sync.WaitGroup
	sem := make(chan struct{}, n)
	for _, j := range jobs {
		wg.Add(1)
		sem <- struct{}{}
		go func(j func()) { defer wg.Done(); j(); <-sem }(j)
	}
	wg.Wait()
}
