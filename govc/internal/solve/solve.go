// Package solve runs SMT solvers on scripts.
package solve

import (
	"bytes"
	"context"
	"os"
	"os/exec"
	"path/filepath"
	"strings"
	"sync"
	"time"
)

type Result struct {
	Answer   string // unsat sat unknown timeout error
	Solver   string
	Time     time.Duration
	Output   string
	All      map[string]string // solver -> answer (thorough tier)
	Conflict bool              // two solvers gave contradicting decisive answers
}

type solver struct {
	name string
	argv []string
}

var solvers = []solver{
	{"z3-new", []string{"z3-new"}},
	{"z3", []string{"z3"}},
	{"cvc5", []string{"cvc5", "--full-saturate-quant"}},
}

// Available reports which solvers can be started.
func Available() []string {
	var out []string
	for _, s := range solvers {
		if _, err := exec.LookPath(s.argv[0]); err == nil {
			out = append(out, s.name)
		}
	}
	return out
}

func run1(ctx context.Context, s solver, file string, seed int) Result {
	start := time.Now()
	argv := append([]string{}, s.argv[1:]...)
	if seed != 0 {
		switch s.name {
		case "z3", "z3-new":
			argv = append(argv, "smt.random_seed="+itoa(seed), "sat.random_seed="+itoa(seed))
		case "cvc5":
			argv = append(argv, "--seed="+itoa(seed))
		}
	}
	cmd := exec.CommandContext(ctx, s.argv[0], append(argv, file)...)
	var out bytes.Buffer
	cmd.Stdout = &out
	cmd.Stderr = &out
	err := cmd.Run()
	r := Result{Solver: s.name, Time: time.Since(start), Output: out.String()}
	first := strings.TrimSpace(strings.SplitN(out.String(), "\n", 2)[0])
	switch first {
	case "unsat", "sat", "unknown":
		r.Answer = first
	default:
		if ctx.Err() != nil {
			r.Answer = "timeout"
		} else if err != nil || first != "" {
			r.Answer = "error"
		} else {
			r.Answer = "timeout"
		}
	}
	return r
}

func itoa(n int) string {
	if n == 0 {
		return "0"
	}
	neg := n < 0
	if neg {
		n = -n
	}
	var b []byte
	for n > 0 {
		b = append([]byte{byte('0' + n%10)}, b...)
		n /= 10
	}
	if neg {
		b = append([]byte{'-'}, b...)
	}
	return string(b)
}

// Race runs all solvers on the script; returns the first decisive answer (unsat, or sat) or the best other.
// With all set, every solver runs to its answer (or the limit) and contradicting answers are flagged.
func Race(script string, dir, name string, timeout time.Duration, seed int, all bool) Result {
	file := filepath.Join(dir, name+".smt2")
	_ = os.WriteFile(file, []byte(script), 0o644)
	if !all {
		// stage 1: the solver that decides most obligations, alone and briefly; only undecided ones are raced
		c1, cancel1 := context.WithTimeout(context.Background(), 1500*time.Millisecond)
		r := run1(c1, solvers[0], file, seed)
		cancel1()
		if r.Answer == "unsat" || r.Answer == "sat" {
			r.All = map[string]string{r.Solver: r.Answer}
			return r
		}
	}
	ctx, cancel := context.WithTimeout(context.Background(), timeout)
	defer cancel()
	ch := make(chan Result, len(solvers))
	for _, s := range solvers {
		go func(s solver) { ch <- run1(ctx, s, file, seed) }(s)
	}
	var best, decisive Result
	answers := map[string]string{}
	for range solvers {
		r := <-ch
		answers[r.Solver] = r.Answer
		if r.Answer == "unsat" || r.Answer == "sat" {
			if decisive.Answer == "" {
				decisive = r
			} else if decisive.Answer != r.Answer {
				decisive.Conflict = true
			}
			if !all {
				cancel()
				decisive.All = answers
				return decisive
			}
			continue
		}
		if best.Answer == "" || best.Answer == "timeout" || (best.Answer == "error" && r.Answer != "error") {
			best = r
		}
	}
	if decisive.Answer != "" {
		decisive.All = answers
		return decisive
	}
	best.All = answers
	return best
}

// Pool runs jobs with bounded parallelism.
func Pool(n int, jobs []func()) {
	var wg sync.WaitGroup
	sem := make(chan struct{}, n)
	for _, j := range jobs {
		wg.Add(1)
		sem <- struct{}{}
		go func(j func()) { defer wg.Done(); j(); <-sem }(j)
	}
	wg.Wait()
}
