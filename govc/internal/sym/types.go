package sym

import (
	"fmt"
	"go/types"
	"strings"

	"govc/internal/smt"
)

const (
	SliceSort = "Slice"
	StrSort   = "Str"
)

// sortOf maps a Go type to an SMT sort (declaring what is needed).
func (x *Exec) sortOf(t types.Type) string {
	switch u := t.Underlying().(type) {
	case *types.Basic:
		switch {
		case u.Info()&types.IsBoolean != 0:
			return smt.Bool
		case u.Info()&types.IsInteger != 0:
			return smt.Int
		case u.Info()&types.IsString != 0:
			return x.ctx.Sort(StrSort)
		case u.Info()&types.IsFloat != 0:
			return x.ctx.Sort("Float")
		case u.Kind() == types.UnsafePointer, u.Kind() == types.UntypedNil:
			return smt.Int
		}
		return smt.Int
	case *types.Pointer, *types.Interface, *types.Signature, *types.Map, *types.Chan:
		return smt.Int
	case *types.Slice:
		x.declSlice()
		return SliceSort
	case *types.Array:
		return smt.ArraySort(smt.Int, x.sortOf(u.Elem()))
	case *types.Struct:
		return x.structSort(t, u)
	case *types.TypeParam:
		return x.ctx.Sort("TP$" + u.Obj().Name())
	case *types.Tuple:
		return "TUPLE"
	}
	if tp, ok := t.(*types.TypeParam); ok {
		return x.ctx.Sort("TP$" + tp.Obj().Name())
	}
	return smt.Int
}

func (x *Exec) declSlice() {
	x.ctx.Datatype(SliceSort, "mkslice", [][2]string{{"s.arr", "Int"}, {"s.off", "Int"}, {"s.len", "Int"}, {"s.cap", "Int"}})
}

func typeName(t types.Type) string {
	s := types.TypeString(t, func(p *types.Package) string { return p.Path() })
	s = strings.NewReplacer(" ", "_", "(", "<", ")", ">", "|", "!").Replace(s)
	return s
}

func (x *Exec) structSort(t types.Type, st *types.Struct) string {
	name := "S$" + typeName(t)
	if x.structs[name] {
		return smt.Sym(name)
	}
	x.structs[name] = true
	var fields [][2]string
	for i := 0; i < st.NumFields(); i++ {
		fields = append(fields, [2]string{smt.Sym(fmt.Sprintf("%s.%d", name, i)), x.sortOf(st.Field(i).Type())})
	}
	if len(fields) == 0 {
		fields = append(fields, [2]string{smt.Sym(name + ".unit"), "Int"})
	}
	x.ctx.Datatype(smt.Sym(name), smt.Sym("mk$"+name), fields)
	return smt.Sym(name)
}

// fieldHeap returns the heap name and sort for field i of struct type t (named or not).
func (x *Exec) fieldHeap(t types.Type, i int) (string, string) {
	st := t.Underlying().(*types.Struct)
	name := fmt.Sprintf("F$%s.%s", typeName(t), st.Field(i).Name())
	return name, smt.ArraySort(smt.Int, x.sortOf(st.Field(i).Type()))
}

// ptrHeap is the heap for dereferencing *T where T is not a struct.
func (x *Exec) ptrHeap(t types.Type) (string, string) {
	return "P$" + typeName(t), smt.ArraySort(smt.Int, x.sortOf(t))
}

// elemHeap is the heap holding array contents for element type t: Ref -> Int -> elem.
func (x *Exec) elemHeap(t types.Type) (string, string) {
	es := x.sortOf(t)
	return "E$" + typeName(t), smt.ArraySort(smt.Int, smt.ArraySort(smt.Int, es))
}

// typeFacts returns range / well-formedness facts for a term of Go type t.
func (x *Exec) typeFacts(v smt.T, t types.Type) []smt.T {
	var fs []smt.T
	switch u := t.Underlying().(type) {
	case *types.Basic:
		if u.Info()&types.IsInteger != 0 {
			lo, hi := intRange(u)
			if lo != "" {
				fs = append(fs, smt.Le(smt.IntLitS(lo), v), smt.Le(v, smt.IntLitS(hi)))
			}
		}
	case *types.Slice:
		fs = append(fs,
			smt.Le(smt.IntLit(0), sOff(v)), smt.Le(smt.IntLit(0), sLen(v)), smt.Le(sLen(v), sCap(v)),
			smt.Le(smt.IntLit(0), sArr(v)),
			smt.Implies(smt.Eq(sArr(v), smt.IntLit(0)), smt.And(smt.Eq(sLen(v), smt.IntLit(0)), smt.Eq(sCap(v), smt.IntLit(0)))),
			smt.Le(sCap(v), smt.IntLitS("4611686018427387904")))
	case *types.Pointer, *types.Interface, *types.Signature, *types.Map, *types.Chan:
		fs = append(fs, smt.Le(smt.IntLit(0), v))
	}
	return fs
}

func intRange(b *types.Basic) (string, string) {
	switch b.Kind() {
	case types.Int, types.Int64, types.UntypedInt:
		return "-9223372036854775808", "9223372036854775807"
	case types.Int32, types.UntypedRune:
		return "-2147483648", "2147483647"
	case types.Int16:
		return "-32768", "32767"
	case types.Int8:
		return "-128", "127"
	case types.Uint, types.Uint64, types.Uintptr:
		return "0", "18446744073709551615"
	case types.Uint32:
		return "0", "4294967295"
	case types.Uint16:
		return "0", "65535"
	case types.Uint8:
		return "0", "255"
	}
	return "", ""
}

func isUnsigned(t types.Type) bool {
	b, ok := t.Underlying().(*types.Basic)
	return ok && b.Info()&types.IsUnsigned != 0
}
func isInteger(t types.Type) bool {
	b, ok := t.Underlying().(*types.Basic)
	return ok && b.Info()&types.IsInteger != 0
}

func sArr(s smt.T) smt.T { return smt.App(smt.Int, "s.arr", s) }
func sOff(s smt.T) smt.T { return smt.App(smt.Int, "s.off", s) }
func sLen(s smt.T) smt.T { return smt.App(smt.Int, "s.len", s) }
func sCap(s smt.T) smt.T { return smt.App(smt.Int, "s.cap", s) }
func mkSlice(arr, off, ln, cp smt.T) smt.T {
	return smt.App(SliceSort, "mkslice", arr, off, ln, cp)
}
