package sym

import (
	"fmt"
	"go/types"
	"regexp"
	"strings"

	"govc/internal/smt"
)

const (
	SliceSort = "Slice"
	StrSort   = "Str"
	BytesSort = "Bytes"
)

// sortOf maps a Go type to an SMT sort (declaring what is needed).
func (x *Exec) sortOf(t types.Type) string {
	if tp, ok := t.(*types.TypeParam); ok {
		return x.ctx.Sort("TP$" + tp.Obj().Name())
	}
	switch u := t.Underlying().(type) {
	case *types.Basic:
		switch {
		case u.Info()&types.IsBoolean != 0:
			return smt.Bool
		case u.Info()&types.IsInteger != 0:
			return smt.Int
		case u.Info()&types.IsString != 0:
			return x.ctx.Sort(StrSort)
		case u.Info()&types.IsFloat != 0:
			return x.ctx.Sort("Float")
		case u.Kind() == types.UnsafePointer, u.Kind() == types.UntypedNil:
			return smt.Int
		}
		return smt.Int
	case *types.Pointer, *types.Interface, *types.Signature, *types.Map, *types.Chan:
		return smt.Int
	case *types.Slice:
		x.declSlice()
		return SliceSort
	case *types.Array:
		return smt.ArraySort(smt.Int, x.sortOf(u.Elem()))
	case *types.Struct:
		return x.structSort(t, u)
	case *types.TypeParam:
		return x.ctx.Sort("TP$" + u.Obj().Name())
	case *types.Tuple:
		return "TUPLE"
	}
	return smt.Int
}

func (x *Exec) declSlice() {
	x.ctx.Datatype(SliceSort, "mkslice", [][2]string{{"s.arr", "Int"}, {"s.off", "Int"}, {"s.len", "Int"}, {"s.cap", "Int"}})
}

var aliasRe = regexp.MustCompile(`\b(byte|rune|any)\b`)

func typeName(t types.Type) string {
	s := types.TypeString(t, func(p *types.Package) string { return p.Path() })
	s = aliasRe.ReplaceAllStringFunc(s, func(m string) string {
		switch m {
		case "byte":
			return "uint8"
		case "rune":
			return "int32"
		}
		return "interface{}"
	})
	s = stripTypeArgs(s)
	s = strings.NewReplacer(" ", "_", "(", "<", ")", ">", "|", "!", ";", "_", "\"", "'", "\n", "_", "\t", "_").Replace(s)
	if len(s) > 120 {
		s = fmt.Sprintf("%s~%x", s[:100], hashStr(s))
	}
	return s
}

func hashStr(s string) uint32 {
	var h uint32 = 2166136261
	for i := 0; i < len(s); i++ {
		h = (h ^ uint32(s[i])) * 16777619
	}
	return h
}

func (x *Exec) structSort(t types.Type, st *types.Struct) string {
	name := "S$" + typeName(t)
	if x.structs[name] {
		return smt.Sym(name)
	}
	x.structs[name] = true
	var fields [][2]string
	for i := 0; i < st.NumFields(); i++ {
		fields = append(fields, [2]string{smt.Sym(fmt.Sprintf("%s.%d", name, i)), x.sortOf(st.Field(i).Type())})
	}
	if len(fields) == 0 {
		fields = append(fields, [2]string{smt.Sym(name + ".unit"), "Int"})
	}
	x.ctx.Datatype(smt.Sym(name), smt.Sym("mk$"+name), fields)
	return smt.Sym(name)
}

func (x *Exec) structField(t types.Type, st *types.Struct, i int, v smt.T) smt.T {
	x.structSort(t, st)
	return smt.App(x.sortOf(st.Field(i).Type()), smt.Sym(fmt.Sprintf("S$%s.%d", typeName(t), i)), v)
}

func (x *Exec) mkStruct(t types.Type, st *types.Struct, fs []smt.T) smt.T {
	sort := x.structSort(t, st)
	if len(fs) == 0 {
		fs = append(fs, smt.IntLit(0))
	}
	return smt.App(sort, smt.Sym("mk$S$"+typeName(t)), fs...)
}

func (x *Exec) regHeap(name, sort string) (string, string) {
	if _, ok := x.heapSort[name]; !ok {
		x.heapSort[name] = sort
	}
	return name, sort
}

func (x *Exec) noteRefHeap(name string, t types.Type) {
	if isTypeParam(t) {
		return
	}
	switch t.Underlying().(type) {
	case *types.Pointer, *types.Interface, *types.Map, *types.Chan, *types.Signature:
		if x.heapHoldsRefs == nil {
			x.heapHoldsRefs = map[string]bool{}
		}
		x.heapHoldsRefs[name] = true
	}
}

// fieldHeap returns the heap name and sort for field i of struct type t (named or not).
func (x *Exec) fieldHeap(t types.Type, i int) (string, string) {
	st := t.Underlying().(*types.Struct)
	name := fmt.Sprintf("F$%s.%s", typeName(t), st.Field(i).Name())
	x.noteRefHeap(name, st.Field(i).Type())
	return x.regHeap(name, smt.ArraySort(smt.Int, x.sortOf(st.Field(i).Type())))
}

// ptrHeap is the heap for dereferencing *T where T is not a struct.
func (x *Exec) ptrHeap(t types.Type) (string, string) {
	x.noteRefHeap("P$"+typeName(t), t)
	return x.regHeap("P$"+typeName(t), smt.ArraySort(smt.Int, x.sortOf(t)))
}

// elemHeap is the heap holding array contents for element type t: Ref -> Int -> elem.
func (x *Exec) elemHeap(t types.Type) (string, string) {
	es := x.sortOf(t)
	x.noteRefHeap("E$"+typeName(t), t)
	return x.regHeap("E$"+typeName(t), smt.ArraySort(smt.Int, smt.ArraySort(smt.Int, es)))
}

// isAggregate: struct and array typed fields/cells live "inline": they are addressed through interior references.
func isAggregate(t types.Type) bool {
	switch t.Underlying().(type) {
	case *types.Struct, *types.Array:
		return true
	}
	return false
}

// interiorRef is the reference of the sub-object field i of the struct at base.
func (x *Exec) interiorRef(t types.Type, i int, base smt.T) smt.T {
	st := t.Underlying().(*types.Struct)
	f := x.ctx.Fun(fmt.Sprintf("fa$%s.%s", typeName(t), st.Field(i).Name()), []string{smt.Int}, smt.Int)
	if _, ok := x.axioms["ax:"+f]; !ok {
		x.ctx.Fun("fresh$", []string{smt.Int}, smt.Bool)
		inv := x.ctx.Fun("inv$"+strings.Trim(f, "|"), []string{smt.Int}, smt.Int)
		x.axioms["ax:"+f] = "(assert (forall ((r!a Int)) (! (and (= (fresh$ (" + f + " r!a)) (fresh$ r!a)) (= (" + inv + " (" + f + " r!a)) r!a) (=> (> r!a 0) (> (" + f + " r!a) 0))) :pattern ((" + f + " r!a)))))"
	}
	return smt.App(smt.Int, f, base)
}

// typeFacts returns range / well-formedness facts for a term of Go type t.
func isTypeParam(t types.Type) bool {
	_, ok := t.(*types.TypeParam)
	return ok
}

func (x *Exec) typeFacts(v smt.T, t types.Type) []smt.T {
	var fs []smt.T
	if isTypeParam(t) {
		return nil
	}
	switch u := t.Underlying().(type) {
	case *types.Basic:
		if u.Info()&types.IsInteger != 0 {
			lo, hi := intRange(u)
			if lo != "" {
				fs = append(fs, smt.Le(smt.IntLitS(lo), v), smt.Le(v, smt.IntLitS(hi)))
			}
		}
		if u.Info()&types.IsString != 0 {
			fs = append(fs, smt.Le(smt.IntLit(0), x.slen(v)))
		}
	case *types.Slice:
		fs = append(fs,
			smt.Le(smt.IntLit(0), sOff(v)), smt.Le(smt.IntLit(0), sLen(v)), smt.Le(sLen(v), sCap(v)),
			smt.Le(smt.IntLit(0), sArr(v)),
			smt.Implies(smt.Eq(sArr(v), smt.IntLit(0)), smt.And(smt.Eq(sLen(v), smt.IntLit(0)), smt.Eq(sCap(v), smt.IntLit(0)), smt.Eq(sOff(v), smt.IntLit(0)))),
			smt.Le(smt.Add(sOff(v), sCap(v)), smt.IntLitS("4611686018427387904")))
	case *types.Pointer, *types.Interface, *types.Signature, *types.Map, *types.Chan:
		fs = append(fs, smt.Le(smt.IntLit(0), v))
	case *types.Struct:
		for i := 0; i < u.NumFields(); i++ {
			ft := u.Field(i).Type()
			if isTypeParam(ft) {
				continue
			}
			switch ft.Underlying().(type) {
			case *types.Basic, *types.Slice, *types.Pointer, *types.Interface:
				fs = append(fs, x.typeFacts(x.structField(t, u, i, v), ft)...)
			}
		}
	}
	return fs
}

func (x *Exec) slen(s smt.T) smt.T {
	f := x.ctx.Fun("slen", []string{x.ctx.Sort(StrSort)}, smt.Int)
	return smt.App(smt.Int, f, s)
}

func intRange(b *types.Basic) (string, string) {
	switch b.Kind() {
	case types.Int, types.Int64:
		return "-9223372036854775808", "9223372036854775807"
	case types.Int32, types.UntypedRune:
		return "-2147483648", "2147483647"
	case types.Int16:
		return "-32768", "32767"
	case types.Int8:
		return "-128", "127"
	case types.Uint, types.Uint64, types.Uintptr:
		return "0", "18446744073709551615"
	case types.Uint32:
		return "0", "4294967295"
	case types.Uint16:
		return "0", "65535"
	case types.Uint8:
		return "0", "255"
	}
	return "", ""
}

func intBits(b *types.Basic) (bits int, signed bool) {
	switch b.Kind() {
	case types.Int, types.Int64:
		return 64, true
	case types.Int32, types.UntypedRune:
		return 32, true
	case types.Int16:
		return 16, true
	case types.Int8:
		return 8, true
	case types.Uint, types.Uint64, types.Uintptr:
		return 64, false
	case types.Uint32:
		return 32, false
	case types.Uint16:
		return 16, false
	case types.Uint8:
		return 8, false
	}
	return 0, false
}

func isUnsigned(t types.Type) bool {
	b, ok := t.Underlying().(*types.Basic)
	return ok && b.Info()&types.IsUnsigned != 0
}
func isInteger(t types.Type) bool {
	b, ok := t.Underlying().(*types.Basic)
	return ok && b.Info()&types.IsInteger != 0
}
func isString(t types.Type) bool {
	b, ok := t.Underlying().(*types.Basic)
	return ok && b.Info()&types.IsString != 0
}
func isByteSlice(t types.Type) bool {
	if t == nil {
		return false
	}
	s, ok := t.Underlying().(*types.Slice)
	if !ok {
		return false
	}
	b, ok := s.Elem().Underlying().(*types.Basic)
	return ok && b.Kind() == types.Uint8
}

func sArr(s smt.T) smt.T { return smt.App(smt.Int, "s.arr", s) }
func sOff(s smt.T) smt.T { return smt.App(smt.Int, "s.off", s) }
func sLen(s smt.T) smt.T { return smt.App(smt.Int, "s.len", s) }
func sCap(s smt.T) smt.T { return smt.App(smt.Int, "s.cap", s) }
func mkSlice(arr, off, ln, cp smt.T) smt.T {
	return smt.App(SliceSort, "mkslice", arr, off, ln, cp)
}

var nilSlice = smt.T{S: "(mkslice 0 0 0 0)", Sort: SliceSort}

// at(off, i) is the array position of element i of a slice that starts at off. It is off+i, kept behind an
// uninterpreted symbol (with a defining axiom) so that element reads make trigger terms without arithmetic.
func (x *Exec) at(off, idx smt.T) smt.T {
	f := x.ctx.Fun("at", []string{smt.Int, smt.Int}, smt.Int)
	if _, ok := x.axioms["at"]; !ok {
		x.axioms["at"] = "(assert (forall ((o!a Int) (j!a Int)) (! (= (at o!a j!a) (+ o!a j!a)) :pattern ((at o!a j!a)))))"
	}
	return smt.App(smt.Int, f, off, idx)
}

// stripTypeArgs removes type argument lists of generic named types ("Node[K,V]" -> "Node"): inside one generic body all
// instances of a generic type are the same instance, and contracts name the type without arguments.
func stripTypeArgs(s string) string {
	var b strings.Builder
	i := 0
	for i < len(s) {
		c := s[i]
		if c == '[' && i > 0 && isIdentChar(s[i-1]) && !strings.HasSuffix(s[:i], "map") {
			depth := 0
			j := i
			for j < len(s) {
				if s[j] == '[' {
					depth++
				} else if s[j] == ']' {
					depth--
					if depth == 0 {
						break
					}
				}
				j++
			}
			i = j + 1
			continue
		}
		b.WriteByte(c)
		i++
	}
	return b.String()
}

func isIdentChar(c byte) bool {
	return c == '_' || (c >= 'a' && c <= 'z') || (c >= 'A' && c <= 'Z') || (c >= '0' && c <= '9')
}
