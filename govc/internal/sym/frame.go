package sym

import (
	"fmt"
	"go/types"
	"sort"
	"strings"

	"govc/internal/smt"
)

type maybeRef struct {
	ref  smt.T
	cond smt.T
}

// checkFrame emits the frame obligations of a `modifies` clause at a return: every heap whose final version differs
// from the entry version may differ only at the designated locations and at objects allocated during this activation.
func (x *Exec) checkFrame(fr *frame, o outcome) {
	x.frameObligations(o.st, "")
}

// frameObligations asserts (emit) the frame condition of st relative to the entry state; where = "" at returns,
// "loopN-init" / "loopN-step" at loop heads.
func (x *Exec) frameObligations(st *State, where string) {
	if x.contract != nil && (x.contract.Assumed || x.contract.AssumedFrame) {
		return
	}
	x.frameDo(st, where, nil)
}

// assumeFrame adds the frame condition for the given heaps as facts (used after a loop havoc).
func (x *Exec) assumeFrame(st *State, heaps []string) {
	only := map[string]bool{}
	for _, h := range heaps {
		only[h] = true
	}
	x.frameDo(st, "", only)
}

func (x *Exec) notFresh(r smt.T) smt.T {
	f := x.ctx.Fun("fresh$", []string{smt.Int}, smt.Bool)
	return smt.Not(smt.App(smt.Bool, f, r))
}

func (x *Exec) frameDo(st *State, where string, assumeOnly map[string]bool) {
	ct := x.contract
	if ct == nil || !ct.HasMod {
		return
	}
	sfx := ""
	if where != "" {
		sfx = "@" + where
	}
	var pending []*Obligation
	emit := func(o *Obligation) {
		if assumeOnly != nil {
			st.assume(o.Goal)
			return
		}
		pending = append(pending, o)
	}
	defer func() {
		if len(pending) == 0 {
			return
		}
		if x.SplitFrames || len(pending) == 1 {
			for _, o := range pending {
				o.Label += sfx
				x.emit(o, st)
			}
			return
		}
		// one obligation per path: the conjunction of the per-heap frame conditions
		var goals []smt.T
		var what []string
		for _, o := range pending {
			goals = append(goals, o.Goal)
			what = append(what, o.Label)
		}
		x.emit(&Obligation{Kind: "frame", Label: "unchanged-outside-modifies" + sfx, Facts: st.facts, Goal: smt.And(goals...),
			Source: "modifies " + strings.Join(ct.Modifies, ", ") + " — heaps touched on this path: " + strings.Join(what, ", ")}, st)
	}()
	if st.gen != x.entry.gen {
		if assumeOnly != nil {
			return
		}
		// some call with unknown effects happened on this path: nothing can be said about any heap
		emit(&Obligation{Kind: "frame", Label: "no-unknown-effects", Facts: st.facts, Goal: smt.False,
			Source: "modifies " + strings.Join(ct.Modifies, ", ") + " (a call with unknown side effects was executed)"})
		return
	}
	// designated locations, evaluated in the entry state
	type desig struct {
		heap string
		idx  []smt.T // leading indices that select the allowed cell / row
		all  bool
	}
	var ds []desig
	env := map[string]binding{}
	for n, b := range x.params {
		env[n] = b
	}
	if recv := x.fn.Signature.Recv(); recv != nil && len(x.fn.Params) > 0 {
		env["this"] = x.params[x.fn.Params[0].Name()]
	}
	ectx := &evalCtx{st: x.entry, old: x.entry, env: env, fr: nil, pkg: ct.Pkg}
	for _, loc := range ct.Modifies {
		loc = strings.TrimSpace(loc)
		if loc == "*" {
			return
		}
		if loc == "fresh(*)" { // objects allocated during the call are outside every frame condition anyway
			continue
		}
		if loc == "bytes(*)" {
			hn, _ := x.elemHeap(types.Typ[types.Uint8])
			ds = append(ds, desig{heap: hn, all: true})
			continue
		}
		if hn, ok := x.allFieldDesig(loc, ct.Pkg); ok {
			ds = append(ds, desig{heap: hn, all: true})
			continue
		}
		if i := strings.Index(loc, "("); i > 0 && strings.HasSuffix(loc, ")") {
			if g, ok := x.P.Ghosts[loc[:i]]; ok {
				inner := strings.TrimSpace(loc[i+1 : len(loc)-1])
				if inner == "*" || inner == "" {
					for _, v := range x.ghostVariants(g, 0, nil) {
						ds = append(ds, desig{heap: v[0], all: true})
					}
					continue
				}
				var idx []smt.T
				var sorts []string
				bad := false
				for _, a := range splitTopLevel(inner) {
					t, err := x.evalExpr(mustParse(a), ectx)
					if err != nil {
						x.fatal("modifies %q: %v", loc, err)
						bad = true
						break
					}
					idx = append(idx, t)
					sorts = append(sorts, t.Sort)
				}
				if !bad {
					for _, v := range x.ghostVariants(g, len(idx), sorts) {
						ds = append(ds, desig{heap: v[0], idx: idx})
					}
				}
				continue
			}
		}
		switch {
		case strings.HasSuffix(loc, "[*]"):
			e, err := x.evalTyped(mustParse(strings.TrimSuffix(loc, "[*]")), ectx)
			if err == nil && e.typ != nil {
				if sl, ok := e.typ.Underlying().(*types.Slice); ok && !isAggregate(sl.Elem()) {
					hn, _ := x.elemHeap(sl.Elem())
					ds = append(ds, desig{heap: hn, idx: []smt.T{sArr(e.t)}})
					continue
				}
			}
			if err == nil && e.typ != nil {
				if vn, _, hn, _, ok := x.mapHeaps(e.typ); ok {
					ds = append(ds, desig{heap: vn, idx: []smt.T{e.t}}, desig{heap: hn, idx: []smt.T{e.t}})
					continue
				}
			}
			x.fatal("modifies %q: cannot resolve", loc)
		case strings.HasSuffix(loc, ".*"):
			e, err := x.evalTyped(mustParse(strings.TrimSuffix(loc, ".*")), ectx)
			if err == nil && e.typ != nil {
				if _, ok := deref(e.typ).Underlying().(*types.Struct); ok {
					x.structDesig(deref(e.typ), e.t, func(h string, ref smt.T) { ds = append(ds, desig{heap: h, idx: []smt.T{ref}}) })
					continue
				}
			}
			x.fatal("modifies %q: cannot resolve", loc)
		default:
			ok := false
			if x.fn != nil { // a captured variable of a function literal verified on its own
				for _, fv := range x.fn.FreeVars {
					if fv.Name() == loc && !isAggregate(deref(fv.Type())) {
						hn, _ := x.ptrHeap(deref(fv.Type()))
						ds = append(ds, desig{heap: hn, idx: []smt.T{x.ctx.Const("fv$"+fv.Name(), smt.Int)}})
						ok = true
					}
				}
			}
			if ok {
				continue
			}
			if i := strings.LastIndex(loc, "."); i > 0 {
				e, err := x.evalTyped(mustParse(loc[:i]), ectx)
				if err == nil && e.typ != nil {
					if stt, isS := deref(e.typ).Underlying().(*types.Struct); isS {
						for k := 0; k < stt.NumFields(); k++ {
							if stt.Field(k).Name() == loc[i+1:] {
								ft := stt.Field(k).Type()
								if isAggregate(ft) {
									if _, isSt := ft.Underlying().(*types.Struct); isSt {
										x.structDesig(ft, x.interiorRef(deref(e.typ), k, e.t), func(h string, ref smt.T) { ds = append(ds, desig{heap: h, idx: []smt.T{ref}}) })
									} else {
										arr := ft.Underlying().(*types.Array)
										hn, _ := x.elemHeap(arr.Elem())
										ds = append(ds, desig{heap: hn, idx: []smt.T{x.interiorRef(deref(e.typ), k, e.t)}})
									}
								} else {
									hn, _ := x.fieldHeap(deref(e.typ), k)
									ds = append(ds, desig{heap: hn, idx: []smt.T{e.t}})
								}
								ok = true
							}
						}
					}
				}
			}
			if !ok {
				x.fatal("modifies %q: cannot resolve", loc)
			}
		}
	}
	var names []string
	for n := range st.heaps {
		names = append(names, n)
	}
	sort.Strings(names)
	for _, hn := range names {
		if assumeOnly != nil && !assumeOnly[hn] {
			continue
		}
		final := st.heaps[hn]
		srt := x.heapSort[hn]
		initial := x.ctx.Const(fmt.Sprintf("%s@%d", hn, x.entry.gen), srt)
		if e, ok := x.entry.heaps[hn]; ok {
			initial = e
		}
		if final.S == initial.S {
			continue
		}
		if strings.HasPrefix(hn, "G$") {
			allowed := false
			for _, d := range ds {
				if d.heap == hn {
					allowed = true
				}
			}
			if !allowed {
				emit(&Obligation{Kind: "frame", Label: "global:" + strings.TrimPrefix(hn, "G$"), Facts: st.facts, Goal: smt.Eq(final, initial),
					Source: "package variable " + strings.TrimPrefix(hn, "G$") + " is not in the modifies clause"})
			}
			continue
		}
		if !strings.HasPrefix(srt, "(Array ") {
			continue
		}
		allowedAll := false
		var excl []smt.T
		r := smt.Raw("r!f", indexSortOf(srt))
		for _, d := range ds {
			if d.heap != hn {
				continue
			}
			if d.all {
				allowedAll = true
				break
			}
			if len(d.idx) == 1 {
				excl = append(excl, smt.Not(smt.Eq(r, d.idx[0])))
			} else if len(d.idx) > 1 {
				// deeper designators (g(obj, k)): the row obj may change only at k
				sub := smt.Raw("k!f", indexSortOf(elemSortOf(srt)))
				rowF := smt.Select(smt.Select(final, d.idx[0]), sub)
				rowI := smt.Select(smt.Select(initial, d.idx[0]), sub)
				goal := smt.Raw("(forall ((k!f "+sub.Sort+")) (=> (not (= k!f "+d.idx[1].S+")) (= "+rowF.S+" "+rowI.S+")))", smt.Bool)
				emit(&Obligation{Kind: "frame", Label: heapLabel(hn) + ".row", Facts: st.facts, Goal: goal, Source: "modifies: row of " + heapLabel(hn) + " changes only at the designated key"})
				excl = append(excl, smt.Not(smt.Eq(r, d.idx[0])))
			}
		}
		if allowedAll {
			continue
		}
		if indexSortOf(srt) == smt.Int {
			excl = append(excl, x.notFresh(r))
		}
		pat := ""
		if assumeOnly != nil {
			pat = " :pattern (" + smt.Select(final, r).S + ")"
		}
		body := "(=> " + smt.And(excl...).S + " (= " + smt.Select(final, r).S + " " + smt.Select(initial, r).S + "))"
		if pat != "" {
			body = "(! " + body + pat + ")"
		}
		goal := smt.Raw("(forall ((r!f "+r.Sort+")) "+body+")", smt.Bool)
		emit(&Obligation{Kind: "frame", Label: heapLabel(hn), Facts: st.facts, Goal: goal,
			Source: "modifies " + strings.Join(ct.Modifies, ", ") + ": " + heapLabel(hn) + " unchanged outside the frame"})
	}
}

func heapLabel(hn string) string {
	s := hn
	if i := strings.LastIndex(s, "/"); i >= 0 {
		s = s[:strings.Index(s, "$")+1] + s[i+1:]
	}
	return s
}

func indexSortOf(arr string) string {
	body := arr[len("(Array ") : len(arr)-1]
	depth := 0
	for i, c := range body {
		switch c {
		case '(':
			depth++
		case ')':
			depth--
		case ' ':
			if depth == 0 {
				return body[:i]
			}
		}
	}
	return smt.Int
}

// structDesig enumerates the scalar heaps of a struct object (recursively through inline aggregates).
func (x *Exec) structDesig(t types.Type, ref smt.T, add func(heap string, ref smt.T)) {
	stt := t.Underlying().(*types.Struct)
	for k := 0; k < stt.NumFields(); k++ {
		ft := stt.Field(k).Type()
		switch u := ft.Underlying().(type) {
		case *types.Struct:
			x.structDesig(ft, x.interiorRef(t, k, ref), add)
		case *types.Array:
			if !isAggregate(u.Elem()) {
				hn, _ := x.elemHeap(u.Elem())
				add(hn, x.interiorRef(t, k, ref))
			}
		default:
			hn, _ := x.fieldHeap(t, k)
			add(hn, ref)
		}
	}
}
