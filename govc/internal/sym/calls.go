package sym

import (
	"fmt"
	"go/types"
	"sort"
	"strings"

	"golang.org/x/tools/go/ssa"

	"govc/internal/gcl"
	"govc/internal/load"
	"govc/internal/smt"
)

func (x *Exec) contractFor(fn *ssa.Function) *gcl.Contract {
	if fn == nil {
		return nil
	}
	f := fn
	if o := fn.Origin(); o != nil {
		f = o
	}
	return x.P.Contracts[load.FuncKey(f)]
}

func (x *Exec) ifaceContract(c *ssa.CallCommon) *gcl.Contract {
	recv := c.Value.Type()
	name := ifaceName(recv)
	if ct := x.P.Contracts[name+"."+c.Method.Name()]; ct != nil {
		return ct
	}
	// embedded interfaces: any iface contract whose method name matches and whose interface the receiver type implements
	var keys []string
	for k, ct := range x.P.Contracts {
		if ct.Kind == "iface" && strings.HasSuffix(k, "."+c.Method.Name()) {
			keys = append(keys, k)
		}
	}
	sort.Strings(keys)
	for _, k := range keys {
		in := strings.TrimSuffix(k, "."+c.Method.Name())
		if it := x.lookupIface(in); it != nil && types.Implements(recv, it) {
			return x.P.Contracts[k]
		}
	}
	return nil
}

func ifaceName(t types.Type) string {
	if n, ok := t.(*types.Named); ok && n.Obj().Pkg() != nil {
		return n.Obj().Pkg().Path() + "." + n.Obj().Name()
	}
	if n, ok := t.(*types.Named); ok {
		return n.Obj().Name()
	}
	return t.String()
}

func (x *Exec) lookupIface(qual string) *types.Interface {
	i := strings.LastIndex(qual, ".")
	if i < 0 {
		return nil
	}
	pkgPath, name := qual[:i], qual[i+1:]
	for _, p := range x.P.Prog.AllPackages() {
		if p.Pkg.Path() == pkgPath {
			if o := p.Pkg.Scope().Lookup(name); o != nil {
				if it, ok := o.Type().Underlying().(*types.Interface); ok {
					return it
				}
			}
		}
	}
	return nil
}

// fnValueContract finds the contract of a dynamically called function value: a function-typed parameter of the
// function under verification ("fnparam <func>#<param>") or a function-typed struct field ("fnfield <pkg>.<Type>.<field>").
func (x *Exec) fnValueContract(fr *frame, c *ssa.CallCommon) (*gcl.Contract, string) {
	v := c.Value
	if u, ok := v.(*ssa.UnOp); ok {
		switch a := u.X.(type) {
		case *ssa.Alloc: // parameter spilled to a cell: `new T (name)` stored from the Parameter
			for _, p := range fr.fn.Params {
				if p.Name() == a.Comment {
					key := load.FuncKey(originOf(fr.fn)) + "#" + p.Name()
					if ct := x.P.Contracts[key]; ct != nil {
						return ct, key
					}
				}
			}
		case *ssa.FieldAddr:
			pt := deref(a.X.Type())
			if n, ok := pt.(*types.Named); ok && n.Obj().Pkg() != nil {
				st := pt.Underlying().(*types.Struct)
				key := n.Obj().Pkg().Path() + "." + n.Obj().Name() + "." + st.Field(a.Field).Name()
				if ct := x.P.Contracts[key]; ct != nil {
					return ct, key
				}
			}
		}
	}
	if p, ok := v.(*ssa.Parameter); ok {
		key := load.FuncKey(originOf(fr.fn)) + "#" + p.Name()
		if ct := x.P.Contracts[key]; ct != nil {
			return ct, key
		}
	}
	return nil, ""
}

func originOf(fn *ssa.Function) *ssa.Function {
	if o := fn.Origin(); o != nil {
		return o
	}
	return fn
}

// calleeKey is the name call clauses match against.
func (x *Exec) calleeKey(c *ssa.CallCommon) string {
	if c.IsInvoke() {
		return ifaceName(c.Value.Type()) + "." + c.Method.Name()
	}
	if sc := c.StaticCallee(); sc != nil {
		return load.FuncKey(originOf(sc))
	}
	if b, ok := c.Value.(*ssa.Builtin); ok {
		return "builtin." + b.Name()
	}
	// a function value loaded from a struct field: "<pkg>.<Type>.<field>" (the key of its fnvalue contract)
	if u, ok := c.Value.(*ssa.UnOp); ok {
		if fa, ok := u.X.(*ssa.FieldAddr); ok {
			pt := deref(fa.X.Type())
			if n, ok := pt.(*types.Named); ok && n.Obj().Pkg() != nil {
				if st, ok := pt.Underlying().(*types.Struct); ok {
					return n.Obj().Pkg().Path() + "." + n.Obj().Name() + "." + st.Field(fa.Field).Name()
				}
			}
		}
	}
	return "dynamic." + c.Value.Name()
}

func matchCallee(key, pat string) bool {
	if matchCallee1(key, pat) {
		return true
	}
	// receiver syntax is optional in patterns: "SSTableStreamWriter.Close" matches "(*SSTableStreamWriter).Close"
	plain := strings.NewReplacer("(*", "", "(", "", ")", "").Replace(key)
	return plain != key && matchCallee1(plain, pat)
}

func matchCallee1(key, pat string) bool {
	return key == pat || strings.HasSuffix(key, "."+pat) || strings.HasSuffix(key, "/"+pat) || strings.HasSuffix(key, pat) && strings.Contains(pat, ".")
}

// allCalls lists the call instructions of the function and its anonymous functions in source order.
func (x *Exec) allCalls() []ssa.CallInstruction {
	if x.calls != nil {
		return x.calls
	}
	var cs []ssa.CallInstruction
	var walk func(fn *ssa.Function)
	walk = func(fn *ssa.Function) {
		for _, b := range fn.Blocks {
			for _, in := range b.Instrs {
				if ci, ok := in.(ssa.CallInstruction); ok {
					cs = append(cs, ci)
				}
			}
		}
		for _, af := range fn.AnonFuncs {
			walk(af)
		}
	}
	walk(x.fn)
	sort.SliceStable(cs, func(i, j int) bool { return cs[i].Pos() < cs[j].Pos() })
	x.calls = cs
	return cs
}

func (x *Exec) countCalls(pat string) int {
	n := 0
	for _, ci := range x.allCalls() {
		if matchCallee(x.calleeKey(ci.Common()), pat) {
			n++
		}
	}
	return n
}

func (x *Exec) callOrdinal(instr ssa.CallInstruction, pat string) int {
	n := 0
	for _, ci := range x.allCalls() {
		if matchCallee(x.calleeKey(ci.Common()), pat) {
			if ci == instr {
				return n
			}
			n++
		}
	}
	return -1
}

// callAsserts emits the `call N of callee: assert E` obligations that bind to this call.
func (x *Exec) callAsserts(fr *frame, st *State, instr ssa.CallInstruction, c *ssa.CallCommon, after bool, results []smt.T, args []smt.T) {
	if x.contract == nil || instr == nil || len(x.contract.CallAsserts) == 0 {
		return
	}
	key := x.calleeKey(c)
	for i, ca := range x.contract.CallAsserts {
		if ca.After != after || !matchCallee(key, ca.Callee) {
			continue
		}
		ord := x.callOrdinal(instr, ca.Callee)
		if ca.N >= 0 && ord != ca.N {
			continue
		}
		root := fr
		for root.parent != nil {
			root = root.parent
		}
		extra := map[string]binding{}
		for k, r := range results {
			var rt types.Type
			if k < c.Signature().Results().Len() {
				rt = c.Signature().Results().At(k).Type()
			}
			extra[fmt.Sprintf("c%d", k)] = binding{r, rt}
		}
		as := args
		if (c.IsInvoke() || c.Signature().Recv() != nil) && len(as) > 0 {
			extra["recv"] = binding{as[0], nil}
			as = as[1:]
		}
		for k, a := range as {
			var at types.Type
			if k < c.Signature().Params().Len() {
				at = c.Signature().Params().At(k).Type()
			}
			extra[fmt.Sprintf("arg%d", k)] = binding{a, at}
		}
		t, err := x.evalClauseExtra(ca.Cl.E, st, x.entry, fr, nil, extra)
		if err != nil {
			x.fatal("call clause %q: %v", ca.Cl.Src, err)
			continue
		}
		label := ca.Cl.Label
		if label == "" {
			label = fmt.Sprintf("callassert%d", i)
		}
		kind := "order"
		x.emit(&Obligation{Kind: kind, Label: fmt.Sprintf("%s@%s#%d", label, shortName(ca.Callee), ord), Facts: st.facts, Goal: t, Source: ca.Cl.Src}, st)
		st.assume(t)
	}
}

// doCall executes a call; args may be pre-evaluated (deferred calls). Returns the possible outcomes.
func (x *Exec) doCall(fr *frame, st *State, instr ssa.CallInstruction, c *ssa.CallCommon, pre []smt.T, depth int) []outcome {
	args := pre
	if args == nil {
		if c.IsInvoke() {
			args = append(args, x.val(fr, st, c.Value))
		}
		for _, a := range c.Args {
			args = append(args, x.argVal(fr, st, a))
		}
	}
	x.callAsserts(fr, st, instr, c, false, nil, args)
	outs := x.doCall1(fr, st, instr, c, args, depth)
	if instr != nil {
		for _, o := range outs {
			if !o.panicked {
				if o.st.callRes == nil {
					o.st.callRes = map[ssa.CallInstruction][]smt.T{}
				}
				o.st.callRes[instr] = o.results
				if o.st.callArgs == nil {
					o.st.callArgs = map[ssa.CallInstruction][]smt.T{}
				}
				as := args
				if (c.IsInvoke() || c.Signature().Recv() != nil) && len(as) > 0 {
					as = as[1:]
				}
				o.st.callArgs[instr] = as
			}
		}
	}
	if x.contract != nil && len(x.contract.CallAsserts) > 0 {
		for _, o := range outs {
			if !o.panicked {
				x.callAsserts(fr, o.st, instr, c, true, o.results, args)
			}
		}
	}
	return outs
}

// argVal evaluates an argument; the address of a scalar field/element/cell passed to a callee does not count as "escaped".
func (x *Exec) argVal(fr *frame, st *State, a ssa.Value) smt.T {
	save := x.addrTaken
	v := x.val(fr, st, a)
	x.addrTaken = save
	return v
}

func (x *Exec) doCall1(fr *frame, st *State, instr ssa.CallInstruction, c *ssa.CallCommon, args []smt.T, depth int) []outcome {
	resTypes := tupleTypes(c.Signature().Results())
	// 1. builtins
	if b, ok := c.Value.(*ssa.Builtin); ok {
		return x.builtin(fr, st, b, c, args, resTypes, instr)
	}
	// 2. closures created in this (or an enclosing) frame: inline
	if mc := x.findClosure(fr, c.Value); mc != nil {
		return x.inline(fr, st, mc.Fn.(*ssa.Function), mc, args, depth)
	}
	if c.IsInvoke() {
		if ct := x.ifaceContract(c); ct != nil {
			sig := c.Method.Type().(*types.Signature)
			return x.applyContract(fr, st, ct, sig, nil, args, true, c.Method.FullName(), c)
		}
		x.uncontracted(st, "invoke "+c.Method.FullName())
		return x.havocCall(fr, st, c, resTypes, true)
	}
	if sc := c.StaticCallee(); sc != nil {
		if outs, ok := x.model(fr, st, sc, c, args, resTypes, instr); ok {
			return outs
		}
		if ct := x.contractFor(sc); ct != nil {
			return x.applyContract(fr, st, ct, sc.Signature, originOf(sc).Params, args, false, sc.String(), c)
		}
		// anonymous function referenced statically (e.g. immediately invoked func literal without captures)
		if sc.Parent() != nil {
			return x.inline(fr, st, sc, nil, args, depth)
		}
		if x.knownPure(sc) {
			x.noteTrusted("assumed pure: " + sc.String())
			return x.havocCall(fr, st, c, resTypes, false)
		}
		x.uncontracted(st, sc.String())
		return x.havocCall(fr, st, c, resTypes, true)
	}
	if ct, key := x.fnValueContract(fr, c); ct != nil {
		self := x.val(fr, st, c.Value)
		x.fnSelf = &self // "self" in a fnvalue contract is the function value that is called
		defer func() { x.fnSelf = nil }()
		return x.applyContract(fr, st, ct, c.Signature(), nil, args, true, key, c)
	}
	x.uncontracted(st, "dynamic call of "+c.Value.Name())
	return x.havocCall(fr, st, c, resTypes, true)
}

func tupleTypes(t *types.Tuple) []types.Type {
	var ts []types.Type
	for i := 0; i < t.Len(); i++ {
		ts = append(ts, t.At(i).Type())
	}
	return ts
}

func (x *Exec) findClosure(fr *frame, v ssa.Value) *ssa.MakeClosure {
	for f := fr; f != nil; f = f.parent {
		if mc, ok := f.closures[v]; ok {
			return mc
		}
	}
	if mc, ok := v.(*ssa.MakeClosure); ok {
		return mc
	}
	return nil
}

func (x *Exec) uncontracted(st *State, what string) {
	x.diag("uncontracted call: %s (results unconstrained, every heap forgotten)", what)
}

// knownPure: library functions assumed to have no effect on any modelled heap (listed in the trusted base).
var pureFuncs = map[string]bool{
	"time.Now": true, "time.Since": true, "log.Printf": true, "log.Println": true, "fmt.Sprintf": true, "fmt.Sprint": true,
	"path/filepath.Dir": true, "path.Join": true,
	"strings.HasPrefix": true, "strings.HasSuffix": true, "strings.Join": true, "strings.Split": true, "strings.TrimPrefix": true,
	"strconv.ParseUint": true, "strconv.Itoa": true, "strconv.Atoi": true, "os.IsNotExist": true, "errors.As": true,
	"(time.Time).Sub": true, "(time.Duration).Seconds": true, "(time.Time).UnixNano": true, "(time.Time).Unix": true,
	"math/rand.Int": true, "math/rand.Intn": true, "math/rand.Float32": true, "math/rand.Float64": true,
	"(*sync.RWMutex).Lock": true, "(*sync.RWMutex).Unlock": true, "(*sync.RWMutex).RLock": true, "(*sync.RWMutex).RUnlock": true,
	"(*sync.Mutex).Lock": true, "(*sync.Mutex).Unlock": true, "(*sync.WaitGroup).Add": true, "(*sync.WaitGroup).Done": true, "(*sync.WaitGroup).Wait": true,
	"hash/crc32.MakeTable": true, "hash/crc64.MakeTable": true, "os.Getpagesize": true,
	"(*time.Ticker).Stop": true, "time.NewTicker": true, "(*os.File).Name": true,
	"math.Ceil": true, "math.Floor": true, "math.Log": true, "math.Max": true, "math.Min": true,
}

func (x *Exec) knownPure(fn *ssa.Function) bool {
	return pureFuncs[fn.String()]
}

// havocCall: unknown callee. Results are unconstrained; if heaps is set every heap is forgotten.  Cells captured by
// closures passed to the callee are forgotten too (the callee may run them).
func (x *Exec) havocCall(fr *frame, st *State, c *ssa.CallCommon, resTypes []types.Type, heaps bool) []outcome {
	if heaps {
		x.havocAll(st)
	}
	if c != nil {
		x.havocCaptured(fr, st, c)
		if heaps {
			x.havocAddrArgs(fr, st, c)
		}
	}
	var rs []smt.T
	for _, t := range resTypes {
		rs = append(rs, x.freshOf(st, "ret", t))
	}
	return []outcome{{st: st, results: rs}}
}

// havocCaptured forgets the cells captured by closures handed to a callee.
func (x *Exec) havocCaptured(fr *frame, st *State, c *ssa.CallCommon) {
	for _, a := range c.Args {
		if mc := x.findClosure(fr, a); mc != nil {
			x.havocClosureCells(fr, st, mc, map[*ssa.Function]bool{})
		}
	}
}

func (x *Exec) havocClosureCells(fr *frame, st *State, mc *ssa.MakeClosure, seen map[*ssa.Function]bool) {
	fn := mc.Fn.(*ssa.Function)
	if seen[fn] {
		return
	}
	seen[fn] = true
	// a function literal with its own contract says which captured variables it assigns (modifies <name>, ...)
	var only map[string]bool
	if ct := x.contractFor(fn); ct != nil && ct.HasMod {
		only = map[string]bool{}
		for _, m := range ct.Modifies {
			only[strings.TrimSpace(m)] = true
		}
	}
	for i, bv := range mc.Bindings {
		if only != nil && i < len(fn.FreeVars) && !only[fn.FreeVars[i].Name()] {
			continue
		}
		if a, ok := bv.(*ssa.Alloc); ok && x.isRegCell(a) {
			x.havocCell(st, a)
		} else if a, ok := bv.(*ssa.Alloc); ok {
			// an escaping variable lives in the heap at the reference of its Alloc
			for f := fr; f != nil; f = f.parent {
				if ref, ok := f.regs[a]; ok {
					et := deref(a.Type())
					if stt, isS := et.Underlying().(*types.Struct); isS {
						x.havocStruct(st, et, stt, ref)
					} else if !isAggregate(et) {
						hn, hs := x.ptrHeap(et)
						st.heaps[hn] = smt.Store(x.heap(st, hn, hs), ref, x.freshOf(st, "captured$"+a.Comment, et))
					}
					break
				}
			}
		} else if fv, ok := bv.(*ssa.FreeVar); ok {
			if a := x.cellOfFreeVar(fr, fv); a != nil {
				x.havocCell(st, a)
			}
		}
	}
}

// havocAddrArgs forgets scalar locations whose address is passed to a callee with unknown effects.
func (x *Exec) havocAddrArgs(fr *frame, st *State, c *ssa.CallCommon) {
	for _, a := range c.Args {
		switch a.(type) {
		case *ssa.FieldAddr, *ssa.IndexAddr, *ssa.Alloc:
			ad, _ := x.resolveAddr(fr, st, a)
			switch ad.kind {
			case "cell":
				x.havocCell(st, ad.cell)
			}
		}
	}
}

// inline executes an anonymous function body in a child frame.
func (x *Exec) inline(fr *frame, st *State, fn *ssa.Function, mc *ssa.MakeClosure, args []smt.T, depth int) []outcome {
	if len(fn.Blocks) == 0 {
		return x.havocCall(fr, st, nil, tupleTypes(fn.Signature.Results()), true)
	}
	if x.inlineDepth > 8 {
		x.fatal("closure inlining too deep (recursion?) at %s", fn.Name())
		return nil
	}
	// the closure's free variables resolve in the frame where the closure was made
	parent := fr
	if mc != nil {
		for f := fr; f != nil; f = f.parent {
			if _, ok := f.closures[ssa.Value(mc)]; ok {
				parent = f
				break
			}
		}
	}
	child := x.newFrame(fn, parent, mc)
	for i, p := range fn.Params {
		if i < len(args) {
			child.regs[p] = args[i]
		}
	}
	st.trace = append(st.trace, "enter "+fn.Name())
	x.inlineDepth++
	nd := len(st.defers)
	outs := x.execBlock(child, st, fn.Blocks[0], nil, depth+1)
	x.inlineDepth--
	for i := range outs {
		outs[i].st.trace = append(outs[i].st.trace, "leave "+fn.Name())
		if len(outs[i].st.defers) > nd { // defers of the inlined function that were not run (no RunDefers reached): drop
			outs[i].st.defers = outs[i].st.defers[:nd]
		}
	}
	return outs
}

// ---------- contract application at call sites

func (x *Exec) calleeEnv(ct *gcl.Contract, sig *types.Signature, params []*ssa.Parameter, args []smt.T, iface bool) map[string]binding {
	env := map[string]binding{}
	idx := 0
	if ct.FuncValue && x.fnSelf != nil {
		env["self"] = binding{*x.fnSelf, types.Typ[types.UnsafePointer]}
	}
	if iface && ct.Kind == "iface" && !strings.Contains(ct.Name, "#") && isMethodContract(ct) {
		env["this"] = binding{args[0], types.Typ[types.UnsafePointer]}
		idx = 1
	} else if !iface && sig.Recv() != nil && len(args) > 0 {
		name := sig.Recv().Name()
		if len(params) > 0 {
			name = params[0].Name()
		}
		env[name] = binding{args[0], sig.Recv().Type()}
		env["this"] = env[name]
		idx = 1
	}
	for i := 0; i < sig.Params().Len(); i++ {
		p := sig.Params().At(i)
		name := p.Name()
		if !iface && len(params) > idx+i {
			name = params[idx+i].Name()
		}
		if idx+i < len(args) {
			if name != "" && name != "_" {
				env[name] = binding{args[idx+i], p.Type()}
			}
			env[fmt.Sprintf("a%d", i)] = binding{args[idx+i], p.Type()}
		}
	}
	return env
}

// isMethodContract: iface contracts for interface methods take a receiver; fnparam / fnfield contracts do not.
func isMethodContract(ct *gcl.Contract) bool { return !ct.FuncValue }

func (x *Exec) applyContract(fr *frame, st *State, ct *gcl.Contract, sig *types.Signature, params []*ssa.Parameter, args []smt.T, iface bool, what string, c *ssa.CallCommon) []outcome {
	env := x.calleeEnv(ct, sig, params, args, iface)
	if ct.AssumedFrame {
		x.noteTrusted("UNVERIFIED frame (modifies clause) of a repository function: " + shortName(what) + " (" + shortFile(ct.File) + ")")
	}
	if ct.Assumed {
		x.noteTrusted("UNVERIFIED contract of a repository function: " + shortName(what) + " (" + shortFile(ct.File) + ")")
	} else if ct.Trusted {
		x.noteTrusted("assumed contract: " + shortName(what) + " (" + shortFile(ct.File) + ")")
	}
	pre := st.clone()
	var side []smt.T
	for i, r := range ct.Requires {
		t, err := x.evalExpr(r.E, &evalCtx{st: st, old: pre, env: env, pkg: ct.Pkg, side: &side})
		st.assume(dedup(side)...)
		side = nil
		if err != nil {
			x.fatal("requires of %s: %v", what, err)
			continue
		}
		label := r.Label
		if label == "" {
			label = fmt.Sprintf("requires%d", i)
		}
		x.emit(&Obligation{Kind: "pre", Label: shortName(what) + "." + label, Facts: st.facts, Goal: t, Source: r.Src}, st)
		st.assume(t)
	}
	// havoc the frame
	if !ct.HasMod {
		x.diag("contract of %s has no modifies clause: every heap forgotten at the call", what)
		x.havocAll(st)
	}
	for _, m := range ct.Modifies {
		x.havocLoc(st, m, env, ct.Pkg)
	}
	if c != nil && !ct.Pure {
		x.havocCaptured(fr, st, c)
	}
	var rs []smt.T
	res := sig.Results()
	for i := 0; i < res.Len(); i++ {
		v := x.freshOf(st, "ret$"+shortName(what), res.At(i).Type())
		rs = append(rs, v)
		env[fmt.Sprintf("r%d", i)] = binding{v, res.At(i).Type()}
		if n := res.At(i).Name(); n != "" && n != "_" {
			if _, clash := env[n]; !clash {
				env[n] = binding{v, res.At(i).Type()}
			}
		}
	}
	for _, name := range ct.Fresh {
		b, ok := env[name]
		if !ok {
			x.fatal("fresh %s of %s: no such result", name, what)
			continue
		}
		r := b.t
		if r.Sort == SliceSort {
			r = sArr(r)
		}
		nonNil := smt.Not(smt.Eq(r, smt.IntLit(0)))
		st.assume(smt.Implies(nonNil, smt.And(smt.Not(x.notFresh(r)), x.freshnessOf(st, r))))
		st.refs = append(st.refs, r)
	}
	for _, e := range ct.Ensures {
		t, err := x.evalExpr(e.E, &evalCtx{st: st, old: pre, env: env, pkg: ct.Pkg, side: &side})
		if err != nil {
			x.fatal("ensures of %s: %v", what, err)
			continue
		}
		st.assume(t)
	}
	st.assume(dedup(side)...)
	if ct.Panics == "always" {
		return []outcome{{st: st, panicked: true}}
	}
	return []outcome{{st: st, results: rs}}
}

func shortName(s string) string {
	if i := strings.LastIndex(s, "/"); i >= 0 {
		s = s[i+1:]
	}
	return s
}

// ghostHeap returns name and sort of the heap of a ghost function: nested arrays indexed by its parameters.
// Parameters declared `any` take the sort of the actual argument (argSorts); the heap name is mangled accordingly.
func (x *Exec) ghostHeap(g *gcl.Spec, argSorts []string) (string, string) {
	name := "GH$" + g.Name
	sorts := make([]string, len(g.Params))
	for i, p := range g.Params {
		if p[1] == "any" {
			if i < len(argSorts) && argSorts[i] != "" {
				sorts[i] = argSorts[i]
			} else {
				sorts[i] = smt.Int
			}
			name += "$" + sortTag(sorts[i])
		} else {
			sorts[i] = x.specSort(p[1])
		}
	}
	sort := x.specSort(g.Ret)
	for i := len(g.Params) - 1; i >= 0; i-- {
		sort = smt.ArraySort(sorts[i], sort)
	}
	if len(g.Params) == 0 {
		sort = smt.ArraySort(smt.Int, sort)
	}
	return x.regHeap(name, sort)
}

func (x *Exec) ghostPolyUnresolved(g *gcl.Spec, nArgs int) bool {
	for i, p := range g.Params {
		if p[1] == "any" && i >= nArgs {
			return true
		}
	}
	return false
}

// ghostVariants lists the registered heaps of a ghost whose `any` parameters are not determined by the designator.
func (x *Exec) ghostVariants(g *gcl.Spec, nArgs int, argSorts []string) [][2]string {
	poly := false
	for i, p := range g.Params {
		if p[1] == "any" && i >= nArgs {
			poly = true
		}
	}
	if !poly {
		hn, hs := x.ghostHeap(g, argSorts)
		return [][2]string{{hn, hs}}
	}
	var out [][2]string
	for _, name := range smt.SortedKeys(x.heapSort) {
		if strings.HasPrefix(name, "GH$"+g.Name+"$") {
			out = append(out, [2]string{name, x.heapSort[name]})
		}
	}
	return out
}

// havocLoc havocs one location designator of a modifies clause: g(obj[, k...]), x.f, x[*], x.*, *.
func (x *Exec) havocLoc(st *State, loc string, env map[string]binding, pkg string) {
	loc = strings.TrimSpace(loc)
	ectx := &evalCtx{st: st, old: st, env: env, pkg: pkg}
	if loc == "*" {
		x.havocAll(st)
		return
	}
	if loc == "bytes(*)" { // the contents of byte buffers (any []byte backing array) may change, no object field does
		hn, _ := x.elemHeap(types.Typ[types.Uint8])
		x.havocHeap(st, hn)
		return
	}
	if loc == "fresh(*)" { // anything allocated since the verified function was entered may change, nothing older does
		x.ctx.Fun("fresh$", []string{smt.Int}, smt.Bool)
		for _, hn := range smt.SortedKeys(st.heaps) {
			srt := x.heapSort[hn]
			if !strings.HasPrefix(srt, "(Array Int ") {
				continue
			}
			old := x.heap(st, hn, srt)
			nh := x.ctx.Fresh(hn, srt)
			st.assume(smt.Raw("(forall ((r!h Int)) (! (=> (not (fresh$ r!h)) (= (select "+nh.S+" r!h) (select "+old.S+" r!h))) :pattern ((select "+nh.S+" r!h))))", smt.Bool))
			st.heaps[hn] = nh
		}
		return
	}
	if hn, ok := x.allFieldDesig(loc, pkg); ok { // all(T.f): field f of every object of type T
		x.havocHeap(st, hn)
		return
	}
	if i := strings.Index(loc, "("); i > 0 && strings.HasSuffix(loc, ")") { // ghost heap g(obj, ...)
		gname := loc[:i]
		if g, ok := x.P.Ghosts[gname]; ok {
			inner := strings.TrimSpace(loc[i+1 : len(loc)-1])
			if inner == "*" || inner == "" {
				if x.ghostPolyUnresolved(g, 0) {
					x.havocAll(st)
					return
				}
				for _, v := range x.ghostVariants(g, 0, nil) {
					x.havocHeap(st, v[0])
				}
				return
			}
			var idx []smt.T
			var sorts []string
			for _, a := range splitTopLevel(inner) {
				t, err := x.evalExpr(mustParse(a), ectx)
				if err != nil {
					x.fatal("modifies %q: %v", loc, err)
					x.havocAll(st)
					return
				}
				idx = append(idx, t)
				sorts = append(sorts, t.Sort)
			}
			if x.ghostPolyUnresolved(g, len(idx)) {
				x.havocAll(st)
				return
			}
			for _, v := range x.ghostVariants(g, len(idx), sorts) {
				h := x.heap(st, v[0], v[1])
				st.heaps[v[0]] = x.storeNested(h, idx, v[1])
			}
			return
		}
	}
	if strings.HasSuffix(loc, "[*]") {
		e, err := x.evalTyped(mustParse(strings.TrimSuffix(loc, "[*]")), ectx)
		if err == nil && e.typ != nil {
			if sl, ok := e.typ.Underlying().(*types.Slice); ok && !isAggregate(sl.Elem()) {
				hn, hs := x.elemHeap(sl.Elem())
				h := x.heap(st, hn, hs)
				// a nil slice has no array: nothing changes then
				nv := smt.Ite(smt.Eq(sArr(e.t), smt.IntLit(0)), smt.Select(h, smt.IntLit(0)), x.ctx.Fresh("arr", smt.ArraySort(smt.Int, x.sortOf(sl.Elem()))))
				st.heaps[hn] = smt.Store(h, sArr(e.t), nv)
				return
			}
			if vn, vs, hn, hs, ok := x.mapHeaps(e.typ); ok { // a map: its row in both map heaps
				for _, p := range [][2]string{{vn, vs}, {hn, hs}} {
					h := x.heap(st, p[0], p[1])
					nv := smt.Ite(smt.Eq(e.t, smt.IntLit(0)), smt.Select(h, smt.IntLit(0)), x.ctx.Fresh("maprow", elemSortOf(p[1])))
					st.heaps[p[0]] = smt.Store(h, e.t, nv)
				}
				return
			}
		}
	}
	if strings.HasSuffix(loc, ".*") {
		e, err := x.evalTyped(mustParse(strings.TrimSuffix(loc, ".*")), ectx)
		if err == nil && e.typ != nil {
			if stt, ok := deref(e.typ).Underlying().(*types.Struct); ok {
				x.havocStruct(st, deref(e.typ), stt, e.t)
				return
			}
		}
	}
	if i := strings.LastIndex(loc, "."); i > 0 {
		e, err := x.evalTyped(mustParse(loc[:i]), ectx)
		if err == nil && e.typ != nil {
			if stt, ok := deref(e.typ).Underlying().(*types.Struct); ok {
				for k := 0; k < stt.NumFields(); k++ {
					if stt.Field(k).Name() == loc[i+1:] {
						ft := stt.Field(k).Type()
						if sst, ok := ft.Underlying().(*types.Struct); ok {
							x.havocStruct(st, ft, sst, x.interiorRef(deref(e.typ), k, e.t))
							return
						}
						if isAggregate(ft) {
							break
						}
						hn, hs := x.fieldHeap(deref(e.typ), k)
						h := x.heap(st, hn, hs)
						v := x.freshOf(st, "mod$"+loc[i+1:], ft)
						st.heaps[hn] = smt.Store(h, e.t, v)
						return
					}
				}
			}
		}
	}
	x.diag("modifies %q: cannot resolve, every heap forgotten", loc)
	x.havocAll(st)
}

func (x *Exec) havocStruct(st *State, t types.Type, stt *types.Struct, ref smt.T) {
	for k := 0; k < stt.NumFields(); k++ {
		ft := stt.Field(k).Type()
		if sst, ok := ft.Underlying().(*types.Struct); ok {
			x.havocStruct(st, ft, sst, x.interiorRef(t, k, ref))
			continue
		}
		if arr, ok := ft.Underlying().(*types.Array); ok {
			if !isAggregate(arr.Elem()) {
				hn, hs := x.elemHeap(arr.Elem())
				h := x.heap(st, hn, hs)
				st.heaps[hn] = smt.Store(h, x.interiorRef(t, k, ref), x.ctx.Fresh("arr", smt.ArraySort(smt.Int, x.sortOf(arr.Elem()))))
			}
			continue
		}
		hn, hs := x.fieldHeap(t, k)
		h := x.heap(st, hn, hs)
		st.heaps[hn] = smt.Store(h, ref, x.freshOf(st, "mod$"+stt.Field(k).Name(), ft))
	}
}

// storeNested replaces the sub-array / cell of h selected by idx with a fresh value.
func (x *Exec) storeNested(h smt.T, idx []smt.T, sort string) smt.T {
	if len(idx) == 0 {
		return x.ctx.Fresh("gh", sort)
	}
	inner := elemSortOf(sort)
	return smt.Store(h, idx[0], x.storeNested(smt.Select(h, idx[0]), idx[1:], inner))
}

func elemSortOf(arr string) string {
	t := smt.T{S: "a", Sort: arr}
	return smt.Select(t, smt.IntLit(0)).Sort
}

// heapsOfModifies lists the heap names a contract's modifies clause can touch (nil = unknown / everything).
func (x *Exec) heapsOfModifies(ct *gcl.Contract, sig *types.Signature, iface bool) []string {
	hs := []string{}
	for _, loc := range ct.Modifies {
		loc = strings.TrimSpace(loc)
		if loc == "*" {
			return nil
		}
		if i := strings.Index(loc, "("); i > 0 && strings.HasSuffix(loc, ")") {
			if g, ok := x.P.Ghosts[loc[:i]]; ok {
				poly := false
				for _, p := range g.Params {
					if p[1] == "any" {
						poly = true
					}
				}
				if poly {
					return nil // instantiation not known statically: treat as everything
				}
				hn, _ := x.ghostHeap(g, nil)
				hs = append(hs, hn)
				continue
			}
		}
		if hn, ok := x.allFieldDesig(loc, ct.Pkg); ok {
			hs = append(hs, hn)
			continue
		}
		// x.f / x[*] / x.*: resolve the static type of x from the signature
		names := x.heapNamesOfDesignator(loc, ct, sig, iface)
		if names == nil {
			return nil
		}
		hs = append(hs, names...)
	}
	return hs
}

func (x *Exec) heapNamesOfDesignator(loc string, ct *gcl.Contract, sig *types.Signature, iface bool) []string {
	// evaluate the designator's base expression in a dummy environment just to learn its type
	env := map[string]binding{}
	d := smt.IntLit(0)
	if sig.Recv() != nil && !iface {
		env[sig.Recv().Name()] = binding{d, sig.Recv().Type()}
		env["this"] = binding{d, sig.Recv().Type()}
	}
	for i := 0; i < sig.Params().Len(); i++ {
		p := sig.Params().At(i)
		v := smt.T{S: "0", Sort: x.sortOf(p.Type())}
		if _, ok := p.Type().Underlying().(*types.Slice); ok {
			v = nilSlice
		}
		env[p.Name()] = binding{v, p.Type()}
		env[fmt.Sprintf("a%d", i)] = binding{v, p.Type()}
	}
	if fn := x.P.Funcs[ct.Pkg+"."+ct.Name]; fn != nil {
		for i, p := range fn.Params {
			v := smt.T{S: "0", Sort: x.sortOf(p.Type())}
			if _, ok := p.Type().Underlying().(*types.Slice); ok {
				v = nilSlice
			}
			env[p.Name()] = binding{v, p.Type()}
			if i == 0 && fn.Signature.Recv() != nil {
				env["this"] = env[p.Name()]
			}
		}
	}
	tmp := &State{cells: map[*ssa.Alloc]smt.T{}, heaps: map[string]smt.T{}, gen: -1}
	ectx := &evalCtx{st: tmp, old: tmp, env: env, pkg: ct.Pkg}
	switch {
	case loc == "bytes(*)":
		hn, _ := x.elemHeap(types.Typ[types.Uint8])
		return []string{hn}
	case strings.HasSuffix(loc, "[*]"):
		e, err := x.evalTyped(mustParse(strings.TrimSuffix(loc, "[*]")), ectx)
		if err == nil && e.typ != nil {
			if sl, ok := e.typ.Underlying().(*types.Slice); ok && !isAggregate(sl.Elem()) {
				hn, _ := x.elemHeap(sl.Elem())
				return []string{hn}
			}
			if vn, _, hn, _, ok := x.mapHeaps(e.typ); ok {
				return []string{vn, hn}
			}
		}
	case strings.HasSuffix(loc, ".*"):
		e, err := x.evalTyped(mustParse(strings.TrimSuffix(loc, ".*")), ectx)
		if err == nil && e.typ != nil {
			if _, ok := deref(e.typ).Underlying().(*types.Struct); ok {
				return x.heapsOfType(deref(e.typ), func() string { return "" })
			}
		}
	default:
		if i := strings.LastIndex(loc, "."); i > 0 {
			e, err := x.evalTyped(mustParse(loc[:i]), ectx)
			if err == nil && e.typ != nil {
				if stt, ok := deref(e.typ).Underlying().(*types.Struct); ok {
					for k := 0; k < stt.NumFields(); k++ {
						if stt.Field(k).Name() == loc[i+1:] {
							k := k
							return x.heapsOfType(stt.Field(k).Type(), func() string { h, _ := x.fieldHeap(deref(e.typ), k); return h })
						}
					}
				}
			}
		}
	}
	return nil
}

func splitTopLevel(s string) []string {
	var out []string
	depth, last := 0, 0
	for i, c := range s {
		switch c {
		case '(', '[':
			depth++
		case ')', ']':
			depth--
		case ',':
			if depth == 0 {
				out = append(out, s[last:i])
				last = i + 1
			}
		}
	}
	return append(out, s[last:])
}

func mustParse(s string) gcl.Expr {
	e, err := gcl.ParseExpr(s)
	if err != nil {
		return gcl.Ident{Name: "$parse_error"}
	}
	return e
}

// allFieldDesig resolves the designator all(T.f) - the field f of every object of the struct type T (a whole field heap).
func (x *Exec) allFieldDesig(loc, pkg string) (string, bool) {
	if !strings.HasPrefix(loc, "all(") || !strings.HasSuffix(loc, ")") {
		return "", false
	}
	inner := strings.TrimSpace(loc[len("all(") : len(loc)-1])
	i := strings.LastIndex(inner, ".")
	if i <= 0 {
		return "", false
	}
	t := x.specParamType(inner[:i], pkg)
	if t == nil {
		return "", false
	}
	t = deref(t)
	stt, ok := t.Underlying().(*types.Struct)
	if !ok {
		return "", false
	}
	for k := 0; k < stt.NumFields(); k++ {
		if stt.Field(k).Name() == inner[i+1:] && !isAggregate(stt.Field(k).Type()) {
			hn, _ := x.fieldHeap(t, k)
			return hn, true
		}
	}
	return "", false
}
