package sym

import (
	"fmt"
	"go/types"
	"strings"

	"golang.org/x/tools/go/ssa"

	"govc/internal/gcl"
	"govc/internal/load"
	"govc/internal/smt"
)

func (x *Exec) contractFor(fn *ssa.Function) *gcl.Contract {
	if fn == nil {
		return nil
	}
	f := fn
	if o := fn.Origin(); o != nil {
		f = o
	}
	return x.P.Contracts[load.FuncKey(f)]
}

func (x *Exec) ifaceContract(c *ssa.CallCommon) *gcl.Contract {
	recv := c.Value.Type()
	name := ifaceName(recv)
	if ct := x.P.Contracts[name+"."+c.Method.Name()]; ct != nil {
		return ct
	}
	// try embedded interfaces: look for any iface contract whose method name matches and whose interface is implemented
	for k, ct := range x.P.Contracts {
		if ct.Kind == "iface" && strings.HasSuffix(k, "."+c.Method.Name()) {
			in := strings.TrimSuffix(k, "."+c.Method.Name())
			if it := x.lookupIface(in); it != nil && types.Implements(recv, it) {
				return ct
			}
		}
	}
	return nil
}

func ifaceName(t types.Type) string {
	if n, ok := t.(*types.Named); ok && n.Obj().Pkg() != nil {
		return n.Obj().Pkg().Path() + "." + n.Obj().Name()
	}
	if n, ok := t.(*types.Named); ok {
		return n.Obj().Name()
	}
	return t.String()
}

func (x *Exec) lookupIface(qual string) *types.Interface {
	i := strings.LastIndex(qual, ".")
	if i < 0 {
		return nil
	}
	pkgPath, name := qual[:i], qual[i+1:]
	for _, p := range x.P.Prog.AllPackages() {
		if p.Pkg.Path() == pkgPath {
			if o := p.Pkg.Scope().Lookup(name); o != nil {
				if it, ok := o.Type().Underlying().(*types.Interface); ok {
					return it
				}
			}
		}
	}
	return nil
}

// doCall executes a call; args may be pre-evaluated (deferred calls). Returns the possible outcomes.
func (x *Exec) doCall(fr *frame, st *State, instr *ssa.Call, c *ssa.CallCommon, pre []smt.T, depth int) []outcome {
	args := pre
	if args == nil {
		for _, a := range c.Args {
			args = append(args, x.val(fr, st, a))
		}
	}
	resTypes := tupleTypes(c.Signature().Results())
	// 1. builtins
	if b, ok := c.Value.(*ssa.Builtin); ok {
		return x.builtin(fr, st, b, c, args, resTypes)
	}
	// 2. closures created in this (or an enclosing) frame: inline
	if mc := x.findClosure(fr, c.Value); mc != nil {
		return x.inline(fr, st, mc.Fn.(*ssa.Function), mc, args, depth)
	}
	if c.IsInvoke() {
		recv := x.val(fr, st, c.Value)
		if ct := x.ifaceContract(c); ct != nil {
			sig := c.Method.Type().(*types.Signature)
			return x.applyContract(st, ct, sig, nil, append([]smt.T{recv}, args...), true, c.Method.FullName())
		}
		x.uncontracted(st, "invoke "+c.Method.FullName())
		return x.havocCall(st, resTypes, true)
	}
	if sc := c.StaticCallee(); sc != nil {
		if outs, ok := x.model(fr, st, sc, c, args, resTypes); ok {
			return outs
		}
		if ct := x.contractFor(sc); ct != nil {
			var ps []*ssa.Parameter
			f := sc
			if o := sc.Origin(); o != nil {
				f = o
			}
			ps = f.Params
			return x.applyContract(st, ct, sc.Signature, ps, args, false, sc.String())
		}
		// anonymous function referenced statically (e.g. immediately invoked func literal without captures)
		if sc.Parent() != nil {
			return x.inline(fr, st, sc, nil, args, depth)
		}
		x.uncontracted(st, sc.String())
		return x.havocCall(st, resTypes, !x.knownPure(sc))
	}
	x.uncontracted(st, "dynamic call of "+c.Value.Name())
	return x.havocCall(st, resTypes, true)
}

func tupleTypes(t *types.Tuple) []types.Type {
	var ts []types.Type
	for i := 0; i < t.Len(); i++ {
		ts = append(ts, t.At(i).Type())
	}
	return ts
}

func (x *Exec) findClosure(fr *frame, v ssa.Value) *ssa.MakeClosure {
	for f := fr; f != nil; f = f.parent {
		if mc, ok := f.closures[v]; ok {
			return mc
		}
	}
	if mc, ok := v.(*ssa.MakeClosure); ok {
		return mc
	}
	return nil
}

func (x *Exec) uncontracted(st *State, what string) {
	x.diag("uncontracted call: %s (results and heaps havocked)", what)
}

func (x *Exec) knownPure(fn *ssa.Function) bool {
	switch fn.String() {
	case "time.Now", "time.Since", "log.Printf", "fmt.Sprintf", "path/filepath.Join", "path/filepath.Base", "strings.HasPrefix", "strings.HasSuffix", "strings.Join":
		return true
	}
	return false
}

func (x *Exec) havocCall(st *State, resTypes []types.Type, heaps bool) []outcome {
	if heaps {
		for name := range st.heaps {
			if strings.HasPrefix(name, "G$") && x.heapSort[name] == "" {
				continue
			}
			st.heaps[name] = x.ctx.Fresh(name, x.heapSort[name])
		}
	}
	var rs []smt.T
	for _, t := range resTypes {
		rs = append(rs, x.freshOf(st, "ret", t))
	}
	return []outcome{{st: st, results: rs}}
}

// inline executes an anonymous function body in a child frame.
func (x *Exec) inline(fr *frame, st *State, fn *ssa.Function, mc *ssa.MakeClosure, args []smt.T, depth int) []outcome {
	if len(fn.Blocks) == 0 {
		return x.havocCall(st, tupleTypes(fn.Signature.Results()), true)
	}
	// the closure's free variables resolve in the frame where the closure was made
	parent := fr
	if mc != nil {
		for f := fr; f != nil; f = f.parent {
			if _, ok := f.closures[ssa.Value(mc)]; ok {
				parent = f
				break
			}
		}
	}
	child := x.newFrame(fn, parent, mc)
	for i, p := range fn.Params {
		if i < len(args) {
			child.regs[p] = args[i]
		}
	}
	st.trace = append(st.trace, "enter "+fn.Name())
	outs := x.execBlock(child, st, fn.Blocks[0], nil, depth+1)
	for i := range outs {
		outs[i].st.trace = append(outs[i].st.trace, "leave "+fn.Name())
	}
	return outs
}

// ---------- builtins and library models

func (x *Exec) builtin(fr *frame, st *State, b *ssa.Builtin, c *ssa.CallCommon, args []smt.T, resTypes []types.Type) []outcome {
	one := func(t smt.T) []outcome { return []outcome{{st: st, results: []smt.T{t}}} }
	switch b.Name() {
	case "ssa:deferstack":
		return one(smt.IntLit(0))
	case "len":
		switch t := c.Args[0].Type().Underlying().(type) {
		case *types.Slice:
			return one(sLen(args[0]))
		case *types.Basic:
			f := x.ctx.Fun("slen", []string{x.sortOf(t)}, smt.Int)
			r := smt.App(smt.Int, f, args[0])
			st.assume(smt.Le(smt.IntLit(0), r))
			return one(r)
		case *types.Array:
			return one(smt.IntLit(t.Len()))
		}
	case "cap":
		if _, ok := c.Args[0].Type().Underlying().(*types.Slice); ok {
			return one(sCap(args[0]))
		}
	case "max", "min":
		r := args[0]
		for _, a := range args[1:] {
			if b.Name() == "max" {
				r = smt.Ite(smt.Lt(r, a), a, r)
			} else {
				r = smt.Ite(smt.Lt(a, r), a, r)
			}
		}
		return one(r)
	case "append":
		// result: either in place (cap suffices) or a fresh array; contents: old prefix preserved, new elements appended
		sl := c.Args[0].Type().Underlying().(*types.Slice)
		hn, hs := x.elemHeap(sl.Elem())
		h := x.heap(st, hn, hs)
		s, t := args[0], args[1]
		newLen := smt.Add(sLen(s), sLen(t))
		r := x.ctx.Fresh("append", SliceSort)
		h2 := x.ctx.Fresh(hn, hs)
		st.heaps[hn] = h2
		i := x.ctx.Fresh("i", smt.Int)
		_ = i
		iv := "i!q"
		q := func(body string) smt.T { return smt.Raw("(forall (("+iv+" Int)) "+body+")", smt.Bool) }
		ri := smt.Raw(iv, smt.Int)
		inPlace := smt.Le(newLen, sCap(s))
		relem := smt.Select(smt.Select(h2, sArr(r)), smt.Add(sOff(r), ri))
		selem := smt.Select(smt.Select(h, sArr(s)), smt.Add(sOff(s), ri))
		telem := smt.Select(smt.Select(h, sArr(t)), smt.Add(sOff(t), smt.Sub(ri, sLen(s))))
		st.assume(
			smt.Eq(sLen(r), newLen), smt.Le(newLen, sCap(r)), smt.Le(smt.IntLit(0), sOff(r)), smt.Lt(smt.IntLit(0), sArr(r)),
			smt.Implies(inPlace, smt.And(smt.Eq(sArr(r), sArr(s)), smt.Eq(sOff(r), sOff(s)), smt.Eq(sCap(r), sCap(s)))),
			q(smt.Implies(smt.And(smt.Le(smt.IntLit(0), ri), smt.Lt(ri, sLen(s))), smt.Eq(relem, selem)).S),
			q(smt.Implies(smt.And(smt.Le(sLen(s), ri), smt.Lt(ri, newLen)), smt.Eq(relem, telem)).S),
			// frame: other arrays unchanged; in-place append leaves the cells outside [len, newLen) of the same array unchanged
			smt.Raw("(forall ((a!q Int)) (=> (not (= a!q "+sArr(r).S+")) (= (select "+h2.S+" a!q) (select "+h.S+" a!q))))", smt.Bool),
			smt.Implies(inPlace, q(smt.Implies(smt.Or(smt.Lt(ri, smt.Add(sOff(s), sLen(s))), smt.Le(smt.Add(sOff(s), newLen), ri)),
				smt.Eq(smt.Select(smt.Select(h2, sArr(s)), ri), smt.Select(smt.Select(h, sArr(s)), ri))).S)),
		)
		if !x.opts.Strict {
			st.assume(smt.Implies(smt.Not(inPlace), x.freshnessOf(st, sArr(r))))
		}
		return one(r)
	case "copy":
		sl, ok := c.Args[0].Type().Underlying().(*types.Slice)
		if !ok {
			break
		}
		hn, hs := x.elemHeap(sl.Elem())
		h := x.heap(st, hn, hs)
		d, s := args[0], args[1]
		n := smt.Ite(smt.Lt(sLen(d), sLen(s)), sLen(d), sLen(s))
		if _, isStr := c.Args[1].Type().Underlying().(*types.Basic); isStr {
			f := x.ctx.Fun("slen", []string{x.sortOf(c.Args[1].Type())}, smt.Int)
			ls := smt.App(smt.Int, f, s)
			n = smt.Ite(smt.Lt(sLen(d), ls), sLen(d), ls)
			h2 := x.ctx.Fresh(hn, hs)
			st.heaps[hn] = h2
			st.assume(smt.Raw("(forall ((a!q Int)) (=> (not (= a!q "+sArr(d).S+")) (= (select "+h2.S+" a!q) (select "+h.S+" a!q))))", smt.Bool))
			return one(n)
		}
		h2 := x.ctx.Fresh(hn, hs)
		st.heaps[hn] = h2
		ri := smt.Raw("i!q", smt.Int)
		inRange := smt.And(smt.Le(sOff(d), ri), smt.Lt(ri, smt.Add(sOff(d), n)))
		src := smt.Select(smt.Select(h, sArr(s)), smt.Add(sOff(s), smt.Sub(ri, sOff(d))))
		st.assume(
			smt.Raw("(forall ((a!q Int)) (=> (not (= a!q "+sArr(d).S+")) (= (select "+h2.S+" a!q) (select "+h.S+" a!q))))", smt.Bool),
			smt.Raw("(forall ((i!q Int)) (= (select (select "+h2.S+" "+sArr(d).S+") i!q) "+smt.Ite(inRange, src, smt.Select(smt.Select(h, sArr(d)), ri)).S+"))", smt.Bool),
		)
		return one(n)
	case "close", "delete", "print", "println":
		return []outcome{{st: st}}
	case "panic":
		return []outcome{{st: st, panicked: true}}
	}
	x.diag("builtin %s not modelled", b.Name())
	return x.havocCall(st, resTypes, false)
}

func (x *Exec) freshnessOf(st *State, r smt.T) smt.T {
	var fs []smt.T
	for _, o := range st.refs {
		fs = append(fs, smt.Not(smt.Eq(r, o)))
	}
	for _, b := range x.params {
		switch b.typ.Underlying().(type) {
		case *types.Pointer:
			fs = append(fs, smt.Not(smt.Eq(r, b.t)))
		case *types.Slice:
			fs = append(fs, smt.Not(smt.Eq(r, sArr(b.t))))
		}
	}
	return smt.And(fs...)
}

func (x *Exec) errIs(a, b smt.T) smt.T {
	f := x.ctx.Fun("errIs", []string{smt.Int, smt.Int}, smt.Bool)
	return smt.App(smt.Bool, f, a, b)
}

// model implements the built-in models of library functions. ok=false if fn is not modelled.
func (x *Exec) model(fr *frame, st *State, fn *ssa.Function, c *ssa.CallCommon, args []smt.T, resTypes []types.Type) ([]outcome, bool) {
	one := func(t ...smt.T) ([]outcome, bool) { return []outcome{{st: st, results: t}}, true }
	switch fn.String() {
	case "errors.Is":
		return one(x.errIs(args[0], args[1]))
	case "errors.New":
		e := x.freshRef(st, "errnew")
		st.assume(x.leaf(e))
		return one(e)
	case "fmt.Errorf":
		e := x.freshRef(st, "errorf")
		// which variadic arguments are wrapped with %w?  The format is a constant; args[1] is the []any slice.
		wrapped := x.wrappedArgs(fr, st, c)
		tq := smt.Raw("t!q", smt.Int)
		disj := []smt.T{smt.Eq(e, tq)}
		for _, w := range wrapped {
			disj = append(disj, x.errIs(w, tq))
		}
		st.assume(smt.Raw("(forall ((t!q Int)) (! (= "+x.errIs(e, tq).S+" "+smt.Or(disj...).S+") :pattern ("+x.errIs(e, tq).S+")))", smt.Bool))
		st.assume(smt.Not(x.leaf(e)))
		return one(e)
	case "errors.Join":
		// args[0] is the variadic slice; we need the element values: recover them from the varargs array stores
		elems := x.varargElems(fr, st, c, 0)
		e := x.ctx.Fresh("errjoin", smt.Int)
		st.assume(smt.Le(smt.IntLit(0), e))
		allNil := smt.True
		tq := smt.Raw("t!q", smt.Int)
		disj := []smt.T{smt.Eq(e, tq)}
		for _, el := range elems {
			allNil = smt.And(allNil, smt.Eq(el, smt.IntLit(0)))
			disj = append(disj, x.errIs(el, tq))
		}
		st.assume(smt.Ite(allNil, smt.Eq(e, smt.IntLit(0)),
			smt.And(smt.Not(smt.Eq(e, smt.IntLit(0))), smt.Not(x.leaf(e)),
				smt.Raw("(forall ((t!q Int)) (! (= "+x.errIs(e, tq).S+" "+smt.Or(disj...).S+") :pattern ("+x.errIs(e, tq).S+")))", smt.Bool))))
		for _, o := range st.refs {
			st.assume(smt.Implies(smt.Not(allNil), smt.Not(smt.Eq(e, o))))
		}
		return one(e)
	case "bytes.Compare":
		x.declSlice()
		f := x.ctx.Fun("bcmp$", []string{SliceSort, SliceSort, "(Array Int (Array Int Int))"}, smt.Int)
		hn, hs := x.elemHeap(types.Typ[types.Uint8])
		r := smt.App(smt.Int, f, args[0], args[1], x.heap(st, hn, hs))
		return one(r)
	case "log.Printf", "time.Now", "time.Since":
		return x.havocCall(st, resTypes, false), true
	case "log.Panicf":
		return []outcome{{st: st, panicked: true}}, true
	}
	return nil, false
}

func (x *Exec) leaf(e smt.T) smt.T {
	f := x.ctx.Fun("errLeaf", []string{smt.Int}, smt.Bool)
	return smt.App(smt.Bool, f, e)
}

// varargElems recovers the element terms of a variadic argument built as `new [n]T (varargs)` + stores + slice.
func (x *Exec) varargElems(fr *frame, st *State, c *ssa.CallCommon, argIdx int) []smt.T {
	sl, ok := c.Args[argIdx].(*ssa.Slice)
	if !ok {
		return nil
	}
	al, ok := sl.X.(*ssa.Alloc)
	if !ok {
		return nil
	}
	arr, ok := deref(al.Type()).Underlying().(*types.Array)
	if !ok {
		return nil
	}
	elems := make([]smt.T, arr.Len())
	hn, hs := x.elemHeap(arr.Elem())
	h := x.heap(st, hn, hs)
	// the array ref is the value bound to the Alloc in some frame; search referrers for its register via stores
	var ref smt.T
	found := false
	for f := fr; f != nil; f = f.parent {
		if t, ok := f.regs[al]; ok {
			ref, found = t, true
			break
		}
	}
	if !found {
		return nil
	}
	for i := range elems {
		elems[i] = smt.Select(smt.Select(h, ref), smt.IntLit(int64(i)))
	}
	return elems
}

// wrappedArgs returns the terms of the variadic arguments of fmt.Errorf that are consumed by a %w verb.
func (x *Exec) wrappedArgs(fr *frame, st *State, c *ssa.CallCommon) []smt.T {
	format, ok := c.Args[0].(*ssa.Const)
	if !ok || format.Value == nil || len(c.Args) < 2 {
		return nil
	}
	f := strings.Trim(format.Value.ExactString(), "\"")
	var verbs []byte
	for i := 0; i+1 < len(f); i++ {
		if f[i] == '%' {
			j := i + 1
			for j < len(f) && strings.ContainsRune("+-# 0123456789.*[]", rune(f[j])) {
				j++
			}
			if j < len(f) {
				if f[j] != '%' {
					verbs = append(verbs, f[j])
				}
				i = j
			}
		}
	}
	elems := x.varargElems(fr, st, c, 1)
	var ws []smt.T
	for i, v := range verbs {
		if v == 'w' && i < len(elems) {
			ws = append(ws, elems[i])
		}
	}
	return ws
}

// ---------- contract application at call sites

func (x *Exec) applyContract(st *State, ct *gcl.Contract, sig *types.Signature, params []*ssa.Parameter, args []smt.T, iface bool, what string) []outcome {
	env := map[string]binding{}
	idx := 0
	if iface {
		env["this"] = binding{args[0], types.Typ[types.UnsafePointer]}
		idx = 1
	} else if sig.Recv() != nil && len(args) > 0 {
		name := sig.Recv().Name()
		if len(params) > 0 {
			name = params[0].Name()
		}
		env[name] = binding{args[0], sig.Recv().Type()}
		env["this"] = env[name]
		idx = 1
	}
	for i := 0; i < sig.Params().Len(); i++ {
		p := sig.Params().At(i)
		name := p.Name()
		if !iface && len(params) > idx+i {
			name = params[idx+i].Name()
		}
		if idx+i < len(args) {
			env[name] = binding{args[idx+i], p.Type()}
			env[fmt.Sprintf("a%d", i)] = env[name]
		}
	}
	pre := st.clone()
	for i, r := range ct.Requires {
		t, err := x.evalExpr(r.E, &evalCtx{st: st, old: pre, env: env})
		if err != nil {
			x.diag("requires of %s: %v", what, err)
			continue
		}
		x.emit(&Obligation{Kind: "pre", Name: fmt.Sprintf("%s.requires%d|%s", shortName(what), i, pathSig(st.trace)), Facts: st.facts, Goal: t, Source: r.Src})
		st.assume(t)
	}
	// havoc the frame
	for _, m := range ct.Modifies {
		x.havocLoc(st, m, env)
	}
	if !ct.HasMod {
		x.diag("contract of %s has no modifies clause: treated as modifies nothing", what)
	}
	var rs []smt.T
	res := sig.Results()
	for i := 0; i < res.Len(); i++ {
		v := x.freshOf(st, "ret$"+shortName(what), res.At(i).Type())
		rs = append(rs, v)
		env[fmt.Sprintf("r%d", i)] = binding{v, res.At(i).Type()}
		if n := res.At(i).Name(); n != "" && n != "_" {
			env[n] = binding{v, res.At(i).Type()}
		}
	}
	for _, e := range ct.Ensures {
		t, err := x.evalExpr(e.E, &evalCtx{st: st, old: pre, env: env})
		if err != nil {
			x.diag("ensures of %s: %v", what, err)
			continue
		}
		st.assume(t)
	}
	return []outcome{{st: st, results: rs}}
}

func shortName(s string) string {
	if i := strings.LastIndex(s, "/"); i >= 0 {
		s = s[i+1:]
	}
	return s
}

// havocLoc havocs one location designator of a modifies clause: ghost(x), x.f, x[*].
func (x *Exec) havocLoc(st *State, loc string, env map[string]binding) {
	loc = strings.TrimSpace(loc)
	if i := strings.Index(loc, "("); i > 0 && strings.HasSuffix(loc, ")") { // ghost heap g(obj)
		g := loc[:i]
		if sort, ok := x.P.Ghosts[g]; ok {
			obj, err := x.evalExpr(mustParse(loc[i+1:len(loc)-1]), &evalCtx{st: st, old: st, env: env})
			if err == nil {
				hn := "GH$" + g
				h := x.heap(st, hn, smt.ArraySort(smt.Int, sort))
				st.heaps[hn] = smt.Store(h, obj, x.ctx.Fresh("gh$"+g, sort))
				return
			}
		}
	}
	if strings.HasSuffix(loc, "[*]") {
		e, err := x.evalTyped(mustParse(strings.TrimSuffix(loc, "[*]")), &evalCtx{st: st, old: st, env: env})
		if err == nil {
			if sl, ok := e.typ.Underlying().(*types.Slice); ok {
				hn, hs := x.elemHeap(sl.Elem())
				h := x.heap(st, hn, hs)
				st.heaps[hn] = smt.Store(h, sArr(e.t), x.ctx.Fresh("arr", smt.ArraySort(smt.Int, x.sortOf(sl.Elem()))))
				return
			}
		}
	}
	if i := strings.LastIndex(loc, "."); i > 0 {
		e, err := x.evalTyped(mustParse(loc[:i]), &evalCtx{st: st, old: st, env: env})
		if err == nil {
			if stt, ok := deref(e.typ).Underlying().(*types.Struct); ok {
				for k := 0; k < stt.NumFields(); k++ {
					if stt.Field(k).Name() == loc[i+1:] {
						hn, hs := x.fieldHeap(deref(e.typ), k)
						h := x.heap(st, hn, hs)
						v := x.freshOf(st, "mod$"+loc[i+1:], stt.Field(k).Type())
						st.heaps[hn] = smt.Store(h, e.t, v)
						return
					}
				}
			}
		}
	}
	x.diag("modifies %q: cannot resolve, all heaps havocked", loc)
	for name := range st.heaps {
		st.heaps[name] = x.ctx.Fresh(name, x.heapSort[name])
	}
}

func mustParse(s string) gcl.Expr {
	e, err := gcl.ParseExpr(s)
	if err != nil {
		return gcl.Ident{Name: "$parse_error"}
	}
	return e
}
