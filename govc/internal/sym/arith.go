package sym

import (
	"go/constant"
	"go/token"
	"go/types"
	"math/bits"

	"golang.org/x/tools/go/ssa"

	"govc/internal/smt"
)

func pow2(k int64) string {
	v := constant.Shift(constant.MakeInt64(1), token.SHL, uint(k))
	return v.ExactString()
}

// arith gives the Go value of the mathematical result r computed in integer type t: r itself if it is in range,
// the wrapped value otherwise.  With safety obligations on, "in range" is an obligation (kind overflow) and then assumed.
func (x *Exec) arith(st *State, r smt.T, t types.Type, in ssa.Instruction, what string) smt.T {
	b, ok := t.Underlying().(*types.Basic)
	if !ok {
		return r
	}
	lo, hi := intRange(b)
	if lo == "" {
		return r
	}
	inRange := smt.And(smt.Le(smt.IntLitS(lo), r), smt.Le(r, smt.IntLitS(hi)))
	if x.safetyOn && !x.wrapOK {
		x.safety(st, "overflow", what+"-in-range", inRange, in)
		return r
	}
	nbits, signed := intBits(b)
	m := smt.IntLitS(pow2(int64(nbits)))
	var wrapped smt.T
	if signed {
		half := smt.IntLitS(pow2(int64(nbits - 1)))
		wrapped = smt.Sub(smt.App(smt.Int, "mod", smt.Add(r, half), m), half)
	} else {
		wrapped = smt.App(smt.Int, "mod", r, m)
	}
	return smt.Ite(inRange, r, wrapped)
}

func (x *Exec) doBinOp(fr *frame, st *State, in *ssa.BinOp) {
	a, b := x.val(fr, st, in.X), x.val(fr, st, in.Y)
	t := in.X.Type()
	var r smt.T
	switch in.Op {
	case token.ADD:
		if isInteger(t) {
			r = x.arith(st, smt.Add(a, b), in.Type(), in, "add")
		} else if isString(t) {
			s := x.ctx.Sort(StrSort)
			r = smt.App(s, x.ctx.Fun("concat$", []string{s, s}, s), a, b)
			st.assume(smt.Eq(x.slen(r), smt.Add(x.slen(a), x.slen(b))))
		} else {
			r = x.freshOf(st, "fadd", in.Type())
		}
	case token.SUB:
		if isInteger(t) {
			r = x.arith(st, smt.Sub(a, b), in.Type(), in, "sub")
		} else {
			r = x.freshOf(st, "fsub", in.Type())
		}
	case token.MUL:
		if isInteger(t) {
			r = x.arith(st, smt.Mul(a, b), in.Type(), in, "mul")
		} else {
			r = x.freshOf(st, "fmul", in.Type())
		}
	case token.QUO:
		if isInteger(t) {
			x.safety(st, "nopanic", "div-by-zero", smt.Not(smt.Eq(b, smt.IntLit(0))), in)
			r = x.truncDiv(a, b, isUnsigned(t))
		} else {
			r = x.freshOf(st, "fdiv", in.Type())
		}
	case token.REM:
		x.safety(st, "nopanic", "mod-by-zero", smt.Not(smt.Eq(b, smt.IntLit(0))), in)
		if isUnsigned(t) {
			r = smt.App(smt.Int, "mod", a, b)
		} else {
			// Go: a % b has the sign of a;  a - b*trunc(a/b)
			r = smt.Sub(a, smt.Mul(b, x.truncDiv(a, b, false)))
		}
	case token.SHL, token.SHR:
		if c, ok := in.Y.(*ssa.Const); ok && c.Value != nil {
			k, _ := constant.Int64Val(constant.ToInt(c.Value))
			if in.Op == token.SHL {
				// shifts discard high bits by definition: wrap silently, no overflow obligation
				save := x.wrapOK
				x.wrapOK = true
				r = x.arith(st, smt.Mul(a, smt.IntLitS(pow2(k))), in.Type(), in, "shl")
				x.wrapOK = save
			} else {
				r = smt.App(smt.Int, "div", a, smt.IntLitS(pow2(k))) // floor division = arithmetic shift
			}
		} else {
			f := x.ctx.Fun("shift$"+in.Op.String(), []string{smt.Int, smt.Int}, smt.Int)
			r = smt.App(smt.Int, f, a, b)
			st.assume(x.typeFacts(r, in.Type())...)
			if in.Op == token.SHR && isUnsigned(t) {
				st.assume(smt.Le(r, a))
			}
		}
	case token.AND, token.OR, token.XOR, token.AND_NOT:
		if x.sortOf(t) == smt.Bool {
			r = map[token.Token]smt.T{token.AND: smt.And(a, b), token.OR: smt.Or(a, b)}[in.Op]
		} else {
			r = x.bitop(st, in, a, b)
		}
	case token.EQL:
		r = x.equal(a, b, t)
	case token.NEQ:
		r = smt.Not(x.equal(a, b, t))
	case token.LSS:
		r = x.less(a, b, t, "<")
	case token.LEQ:
		r = x.less(a, b, t, "<=")
	case token.GTR:
		r = x.less(b, a, t, "<")
	case token.GEQ:
		r = x.less(b, a, t, "<=")
	default:
		r = x.freshOf(st, "binop", in.Type())
	}
	fr.regs[in] = r
}

// truncDiv is Go's integer division (truncation toward zero) expressed with SMT's floor-like div.
func (x *Exec) truncDiv(a, b smt.T, unsigned bool) smt.T {
	if unsigned {
		return smt.App(smt.Int, "div", a, b)
	}
	// SMT-LIB div: a = b*q + r with 0 <= r < |b|.  Go truncates toward zero.
	q := smt.App(smt.Int, "div", a, b)
	exact := smt.Eq(smt.App(smt.Int, "mod", a, b), smt.IntLit(0))
	adj := smt.Ite(smt.Lt(smt.IntLit(0), b), smt.Add(q, smt.IntLit(1)), smt.Sub(q, smt.IntLit(1)))
	return smt.Ite(smt.Or(smt.Le(smt.IntLit(0), a), exact), q, adj)
}

// bitop: and / or / xor / andnot.  Masks by constants of the shape (2^k - 1) << j are arithmetic; the rest stays
// uninterpreted with range facts only (so a proof cannot depend on it).
func (x *Exec) bitop(st *State, in *ssa.BinOp, a, b smt.T) smt.T {
	cv := func(v ssa.Value) (uint64, bool) {
		if c, ok := v.(*ssa.Const); ok && c.Value != nil && c.Value.Kind() == constant.Int {
			if u, ok := constant.Uint64Val(c.Value); ok {
				return u, true
			}
		}
		return 0, false
	}
	nonneg := isUnsigned(in.X.Type())
	if in.Op == token.AND && nonneg {
		c, ok := cv(in.Y)
		other := a
		if !ok {
			c, ok = cv(in.X)
			other = b
		}
		if ok {
			if c == 0 {
				return smt.IntLit(0)
			}
			j := bits.TrailingZeros64(c)
			w := c >> uint(j)
			if w&(w+1) == 0 { // contiguous run of ones
				k := bits.Len64(w)
				low := smt.App(smt.Int, "mod", smt.App(smt.Int, "div", other, smt.IntLitS(pow2(int64(j)))), smt.IntLitS(pow2(int64(k))))
				if j == 0 {
					return smt.App(smt.Int, "mod", other, smt.IntLitS(pow2(int64(k))))
				}
				return smt.Mul(low, smt.IntLitS(pow2(int64(j))))
			}
		}
	}
	if in.Op == token.OR && nonneg {
		// x | c where c is a single high bit and x < c: addition
		if c, ok := cv(in.Y); ok && c != 0 && c&(c-1) == 0 {
			f := x.ctx.Fun("bv$or", []string{smt.Int, smt.Int}, smt.Int)
			or := smt.App(smt.Int, f, a, b)
			st.assume(x.typeFacts(or, in.Type())...)
			bitSet := smt.Eq(smt.App(smt.Int, "mod", smt.App(smt.Int, "div", a, b), smt.IntLit(2)), smt.IntLit(1))
			return smt.Ite(bitSet, a, smt.Add(a, b))
		}
	}
	name := map[token.Token]string{token.AND: "and", token.OR: "or", token.XOR: "xor", token.AND_NOT: "andnot"}[in.Op]
	f := x.ctx.Fun("bv$"+name, []string{smt.Int, smt.Int}, smt.Int)
	r := smt.App(smt.Int, f, a, b)
	st.assume(x.typeFacts(r, in.Type())...)
	if nonneg {
		switch in.Op {
		case token.AND:
			st.assume(smt.Le(r, a), smt.Le(r, b))
		case token.OR:
			st.assume(smt.Le(a, r), smt.Le(b, r), smt.Le(r, smt.Add(a, b)))
		case token.XOR:
			st.assume(smt.Le(r, smt.Add(a, b)))
			st.assume(smt.Eq(smt.Eq(r, smt.IntLit(0)), smt.Eq(a, b)))
		case token.AND_NOT:
			st.assume(smt.Le(r, a))
		}
	}
	return r
}

func (x *Exec) equal(a, b smt.T, t types.Type) smt.T {
	if _, ok := t.Underlying().(*types.Slice); ok { // only comparison with nil is legal
		if a.S == nilSlice.S {
			return smt.Eq(sArr(b), smt.IntLit(0))
		}
		if b.S == nilSlice.S {
			return smt.Eq(sArr(a), smt.IntLit(0))
		}
	}
	return smt.Eq(a, b)
}

func (x *Exec) less(a, b smt.T, t types.Type, op string) smt.T {
	if isInteger(t) {
		return smt.App(smt.Bool, op, a, b)
	}
	s := x.sortOf(t)
	f := x.ctx.Fun("lt$"+s, []string{s, s}, smt.Bool)
	if s == x.ctx.Sort(StrSort) {
		x.axioms["lt$Str"] = "(assert (forall ((a Str) (b Str)) (! (not (and (lt$Str a b) (lt$Str b a))) :pattern ((lt$Str a b)))))\n" +
			"(assert (forall ((a Str)) (! (not (lt$Str a a)) :pattern ((lt$Str a a)))))\n" +
			"(assert (forall ((a Str) (b Str)) (! (or (lt$Str a b) (lt$Str b a) (= a b)) :pattern ((lt$Str a b)))))\n" +
			"(assert (forall ((a Str) (b Str) (c Str)) (! (=> (and (lt$Str a b) (lt$Str b c)) (lt$Str a c)) :pattern ((lt$Str a b) (lt$Str b c)))))"
	}
	if op == "<" {
		return smt.App(smt.Bool, f, a, b)
	}
	return smt.Not(smt.App(smt.Bool, f, b, a))
}
