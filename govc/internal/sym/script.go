package sym

import (
	"fmt"
	"sort"
	"strings"

	"govc/internal/smt"
)

// Script renders an obligation as a self-contained SMT-LIB2 script (unsat = discharged; for Cover: sat = ok).
// With model set, the script also asks for the values of the watched terms.
func (x *Exec) Script(o *Obligation, model bool) string {
	var b strings.Builder
	b.WriteString("(set-option :produce-models true)\n(set-logic ALL)\n")
	b.WriteString("; obligation: " + o.Name + "\n; " + strings.ReplaceAll(o.Source, "\n", " ") + "\n")
	// make sure the error vocabulary exists
	x.ctx.Fun("errIs", []string{smt.Int, smt.Int}, smt.Bool)
	x.ctx.Fun("errLeaf", []string{smt.Int}, smt.Bool)
	b.WriteString(x.ctx.Decls())
	b.WriteString("(assert (forall ((e Int)) (! (=> (not (= e 0)) (errIs e e)) :pattern ((errIs e e)))))\n")
	b.WriteString("(assert (forall ((t Int)) (! (=> (not (= t 0)) (not (errIs 0 t))) :pattern ((errIs 0 t)))))\n")
	b.WriteString("(assert (forall ((e Int) (t Int)) (! (=> (and (errLeaf e) (errIs e t)) (= e t)) :pattern ((errIs e t)))))\n")
	var gs []string
	for _, k := range smt.SortedKeys(x.errGlobs) {
		g := x.errGlobs[k]
		gs = append(gs, g.S)
		fmt.Fprintf(&b, "(assert (and (> %s 0) (errLeaf %s)))\n", g.S, g.S)
	}
	sort.Strings(gs)
	if len(gs) > 1 {
		fmt.Fprintf(&b, "(assert (distinct %s))\n", strings.Join(gs, " "))
	}
	var tags []string
	for t := range x.typeTags {
		tags = append(tags, t)
	}
	sort.Strings(tags)
	if len(tags) > 1 {
		fmt.Fprintf(&b, "(assert (distinct %s))\n", strings.Join(tags, " "))
	}
	for _, k := range smt.SortedKeys(x.axioms) {
		b.WriteString(x.axioms[k] + "\n")
	}
	var body strings.Builder
	for _, f := range o.Facts {
		body.WriteString("(assert " + f.S + ")\n")
	}
	for _, a := range x.relevantAxioms(body.String() + o.Goal.S) {
		b.WriteString("(assert " + a.S + ")\n")
	}
	b.WriteString(body.String())
	if !o.Cover {
		b.WriteString("(assert (not " + o.Goal.S + "))\n")
	}
	b.WriteString("(check-sat)\n")
	if model && len(o.Watch) > 0 {
		for _, w := range o.Watch {
			b.WriteString("(get-value (" + w.T.S + "))\n")
		}
	}
	return b.String()
}
