package sym

import (
	"fmt"
	"sort"
	"strings"

	"govc/internal/smt"
)

// Script renders an obligation as a self-contained SMT-LIB2 script (unsat = discharged; for Cover: sat = ok).
func (x *Exec) Script(o *Obligation) string {
	var b strings.Builder
	b.WriteString("(set-option :produce-models true)\n(set-logic ALL)\n")
	b.WriteString("; obligation: " + o.Name + "\n; " + strings.ReplaceAll(o.Source, "\n", " ") + "\n")
	// make sure the error vocabulary exists
	x.ctx.Fun("errIs", []string{smt.Int, smt.Int}, smt.Bool)
	x.ctx.Fun("errLeaf", []string{smt.Int}, smt.Bool)
	b.WriteString(x.ctx.Decls())
	b.WriteString("(assert (forall ((e Int)) (! (=> (not (= e 0)) (errIs e e)) :pattern ((errIs e e)))))\n")
	b.WriteString("(assert (forall ((t Int)) (! (=> (not (= t 0)) (not (errIs 0 t))) :pattern ((errIs 0 t)))))\n")
	b.WriteString("(assert (forall ((e Int) (t Int)) (! (=> (and (errLeaf e) (errIs e t)) (= e t)) :pattern ((errIs e t)))))\n")
	var gs []string
	for _, k := range smt.SortedKeys(x.errGlobs) {
		g := x.errGlobs[k]
		gs = append(gs, g.S)
		fmt.Fprintf(&b, "(assert (and (> %s 0) (errLeaf %s)))\n", g.S, g.S)
	}
	sort.Strings(gs)
	if len(gs) > 1 {
		fmt.Fprintf(&b, "(assert (distinct %s))\n", strings.Join(gs, " "))
	}
	for _, f := range o.Facts {
		b.WriteString("(assert " + f.S + ")\n")
	}
	if !o.Cover {
		b.WriteString("(assert (not " + skolemize(o.Goal.S) + "))\n")
	}
	b.WriteString("(check-sat)\n")
	return b.String()
}

// skolemize is the identity for now: (not (forall ...)) is handled well enough by the solvers' own skolemisation.
func skolemize(s string) string { return s }
