// Package sym is the symbolic executor over naive SSA that produces proof obligations.
package sym

import (
	"crypto/sha1"
	"fmt"
	"go/constant"
	"go/token"
	"go/types"
	"sort"
	"strings"

	"golang.org/x/tools/go/ssa"

	"govc/internal/gcl"
	"govc/internal/load"
	"govc/internal/smt"
)

// Obligation is one proof goal: facts => goal.
type Obligation struct {
	Name   string
	Kind   string
	Props  []string
	Facts  []smt.T
	Goal   smt.T
	Decls  string
	Cover  bool // must be SAT (anti-vacuity)
	Source string
}

type Options struct {
	Safety   bool // emit bounds / nil / underflow obligations
	Strict   bool // uncontracted calls are errors
	MaxPaths int
}

type Exec struct {
	P        *load.Program
	fn       *ssa.Function
	ctx      *smt.Ctx
	contract *gcl.Contract
	opts     Options
	loops    map[*ssa.BasicBlock]*load.LoopInfo
	structs  map[string]bool
	errGlobs map[string]smt.T
	Obls     []*Obligation
	Diag     []string
	paths    int
	heapSort map[string]string
	entry    *State
	params   map[string]binding // contract-visible names at entry
	obSeq    map[string]int
}

type binding struct {
	t   smt.T
	typ types.Type
}

// addr describes where a pointer SSA value points to.
type addr struct {
	kind string // "cell", "field", "elem", "ptr", "global"
	cell *ssa.Alloc
	heap string
	base smt.T // object ref (field/ptr) or array ref (elem)
	idx  smt.T // element index (elem)
	typ  types.Type
}

type deferred struct {
	call *ssa.Defer
	args []smt.T
	fnv  ssa.Value
	fr   *frame
}

type frame struct {
	fn       *ssa.Function
	freeVars map[*ssa.FreeVar]ssa.Value // closure bindings -> values in the parent frame
	parent   *frame
	regs     map[ssa.Value]smt.T
	tuples   map[ssa.Value][]smt.T
	addrs    map[ssa.Value]addr
	closures map[ssa.Value]*ssa.MakeClosure
}

type State struct {
	cells  map[*ssa.Alloc]smt.T
	heaps  map[string]smt.T
	facts  []smt.T
	defers []deferred
	trace  []string
	refs   []smt.T
}

func (s *State) clone() *State {
	n := &State{cells: make(map[*ssa.Alloc]smt.T, len(s.cells)), heaps: make(map[string]smt.T, len(s.heaps))}
	for k, v := range s.cells {
		n.cells[k] = v
	}
	for k, v := range s.heaps {
		n.heaps[k] = v
	}
	n.facts = append([]smt.T(nil), s.facts...)
	n.defers = append([]deferred(nil), s.defers...)
	n.trace = append([]string(nil), s.trace...)
	n.refs = append([]smt.T(nil), s.refs...)
	return n
}

func (s *State) assume(fs ...smt.T) {
	for _, f := range fs {
		if f.S != "true" {
			s.facts = append(s.facts, f)
		}
	}
}

// outcome of running a function body: final state and result terms.
type outcome struct {
	st      *State
	results []smt.T
	panicked bool
}

func New(p *load.Program, fn *ssa.Function, c *gcl.Contract, opts Options) *Exec {
	if opts.MaxPaths == 0 {
		opts.MaxPaths = 2000
	}
	return &Exec{P: p, fn: fn, ctx: smt.NewCtx(), contract: c, opts: opts, structs: map[string]bool{},
		errGlobs: map[string]smt.T{}, heapSort: map[string]string{}, obSeq: map[string]int{}}
}

func (x *Exec) diag(format string, a ...any) { x.Diag = append(x.Diag, fmt.Sprintf(format, a...)) }

func (x *Exec) heap(st *State, name, sort string) smt.T {
	if h, ok := st.heaps[name]; ok {
		return h
	}
	x.heapSort[name] = sort
	h := x.ctx.Const(name+"@0", sort)
	st.heaps[name] = h
	return h
}

// Run verifies the function against its contract and returns the obligations.
func (x *Exec) Run() {
	fn := x.fn
	if len(fn.Blocks) == 0 {
		x.diag("no body")
		return
	}
	x.loops = load.Loops(fn)
	st := &State{cells: map[*ssa.Alloc]smt.T{}, heaps: map[string]smt.T{}}
	fr := x.newFrame(fn, nil, nil)
	x.params = map[string]binding{}
	for _, p := range fn.Params {
		v := x.ctx.Const("p$"+p.Name(), x.sortOf(p.Type()))
		fr.regs[p] = v
		st.assume(x.typeFacts(v, p.Type())...)
		x.params[p.Name()] = binding{v, p.Type()}
	}
	if recv := fn.Signature.Recv(); recv != nil && len(fn.Params) > 0 {
		if _, ok := recv.Type().(*types.Pointer); ok {
			st.assume(smt.Not(smt.Eq(fr.regs[fn.Params[0]], smt.IntLit(0)))) // receiver is non-nil (caller's obligation)
		}
	}
	x.entry = st.clone()
	if x.contract != nil {
		for _, r := range x.contract.Requires {
			t, err := x.evalClause(r.E, st, x.entry, fr, nil)
			if err != nil {
				x.diag("requires %q: %v", r.Src, err)
				continue
			}
			st.assume(t)
		}
		// cover: preconditions satisfiable
		x.emit(&Obligation{Kind: "cover", Name: "pre-satisfiable", Facts: st.facts, Goal: smt.False, Cover: true})
		x.entry = st.clone()
	}
	outs := x.execBlock(fr, st, fn.Blocks[0], nil, 0)
	for _, o := range outs {
		if o.panicked {
			continue
		}
		x.checkPost(fr, o)
	}
}

func (x *Exec) newFrame(fn *ssa.Function, parent *frame, mc *ssa.MakeClosure) *frame {
	fr := &frame{fn: fn, parent: parent, regs: map[ssa.Value]smt.T{}, tuples: map[ssa.Value][]smt.T{}, addrs: map[ssa.Value]addr{},
		closures: map[ssa.Value]*ssa.MakeClosure{}, freeVars: map[*ssa.FreeVar]ssa.Value{}}
	if mc != nil {
		for i, fv := range fn.FreeVars {
			fr.freeVars[fv] = mc.Bindings[i]
		}
	}
	return fr
}

func (x *Exec) emit(o *Obligation) {
	fnName := load.FuncKey(x.fn)
	if i := strings.LastIndex(fnName, "/"); i >= 0 {
		fnName = fnName[i+1:]
	}
	base := fmt.Sprintf("%s|%s|%s", fnName, o.Kind, o.Name)
	x.obSeq[base]++
	if x.obSeq[base] > 1 {
		base = fmt.Sprintf("%s#%d", base, x.obSeq[base])
	}
	o.Name = base
	if x.contract != nil {
		o.Props = x.contract.Props
	}
	o.Facts = append([]smt.T(nil), o.Facts...)
	x.Obls = append(x.Obls, o)
}

func pathSig(trace []string) string {
	h := sha1.Sum([]byte(strings.Join(trace, ";")))
	return fmt.Sprintf("p:%x", h[:3])
}

func (x *Exec) checkPost(fr *frame, o outcome) {
	if x.contract == nil {
		return
	}
	for i, e := range x.contract.Ensures {
		t, err := x.evalClause(e.E, o.st, x.entry, fr, o.results)
		if err != nil {
			x.diag("ensures %q: %v", e.Src, err)
			continue
		}
		label := e.Label
		if label == "" {
			label = fmt.Sprintf("ensures%d", i)
		}
		x.emit(&Obligation{Kind: "post", Name: label + "|" + pathSig(o.st.trace), Facts: o.st.facts, Goal: t, Source: e.Src + "  @ path " + strings.Join(o.st.trace, " ; ")})
	}
}

// ---------- block execution

func (x *Exec) execBlock(fr *frame, st *State, b *ssa.BasicBlock, pred *ssa.BasicBlock, depth int) []outcome {
	if fr.parent == nil { // loop cutting only in the function under verification (inlined closures with loops: unsupported)
		if li, ok := x.loops[b]; ok {
			fromBack := pred != nil && li.Body[pred]
			lc := x.loopContract(li)
			if fromBack {
				x.assertInv(fr, st, li, lc, "inv-step")
				return nil
			}
			x.assertInv(fr, st, li, lc, "inv-init")
			st = x.havocLoop(fr, st, li)
			x.assumeInv(fr, st, li, lc)
			st.trace = append(st.trace, fmt.Sprintf("loop%d", li.Ordinal))
		}
	} else if _, ok := load.Loops(fr.fn)[b]; ok && pred != nil && b.Dominates(pred) {
		x.diag("loop inside inlined closure %s: unsupported", fr.fn.Name())
		return nil
	}
	return x.execInstrs(fr, st, b, 0, pred, depth)
}

func (x *Exec) loopContract(li *load.LoopInfo) *gcl.Loop {
	if x.contract == nil {
		return nil
	}
	return x.contract.Loops[li.Ordinal]
}

func (x *Exec) assertInv(fr *frame, st *State, li *load.LoopInfo, lc *gcl.Loop, kind string) {
	if lc == nil {
		return
	}
	for i, inv := range lc.Invariants {
		t, err := x.evalClause(inv.E, st, x.entry, fr, nil)
		if err != nil {
			x.diag("loop %d invariant %q: %v", li.Ordinal, inv.Src, err)
			continue
		}
		x.emit(&Obligation{Kind: kind, Name: fmt.Sprintf("loop%d.inv%d|%s", li.Ordinal, i, pathSig(st.trace)), Facts: st.facts, Goal: t, Source: inv.Src})
	}
}

func (x *Exec) assumeInv(fr *frame, st *State, li *load.LoopInfo, lc *gcl.Loop) {
	if lc == nil {
		return
	}
	for _, inv := range lc.Invariants {
		t, err := x.evalClause(inv.E, st, x.entry, fr, nil)
		if err == nil {
			st.assume(t)
		}
	}
}

// havocLoop replaces everything the loop body may assign by fresh symbols.
func (x *Exec) havocLoop(fr *frame, st *State, li *load.LoopInfo) *State {
	st = st.clone()
	heaps := map[string]bool{}
	allHeaps := false
	for b := range li.Body {
		for _, in := range b.Instrs {
			switch in := in.(type) {
			case *ssa.Store:
				if a, ok := in.Addr.(*ssa.Alloc); ok && x.isRegCell(a) {
					v := x.ctx.Fresh("h$"+a.Comment, x.sortOf(deref(a.Type())))
					st.cells[a] = v
					st.assume(x.typeFacts(v, deref(a.Type()))...)
				} else {
					// heap store: figure out heap from the address instruction
					for _, h := range x.heapsOfAddr(in.Addr) {
						heaps[h] = true
					}
				}
			case ssa.CallInstruction:
				if !x.callIsPure(in) {
					allHeaps = true
				}
			}
		}
	}
	for name := range st.heaps {
		if allHeaps || heaps[name] {
			st.heaps[name] = x.ctx.Fresh(name, x.heapSort[name])
		}
	}
	for h := range heaps {
		if _, ok := st.heaps[h]; !ok {
			// heap not touched yet before the loop: declare lazily on first use (fresh name)
		}
	}
	return st
}

func (x *Exec) callIsPure(in ssa.CallInstruction) bool {
	c := in.Common()
	if b, ok := c.Value.(*ssa.Builtin); ok {
		switch b.Name() {
		case "len", "cap", "max", "min", "ssa:deferstack":
			return true
		}
		return false
	}
	if sc := c.StaticCallee(); sc != nil {
		if ct := x.contractFor(sc); ct != nil && ct.HasMod && len(ct.Modifies) == 0 {
			return true
		}
		switch sc.String() {
		case "errors.Is", "bytes.Compare", "bytes.Equal", "fmt.Errorf", "errors.New", "errors.Join", "fmt.Sprintf", "path/filepath.Join", "path/filepath.Base":
			return true
		}
	}
	if c.IsInvoke() {
		if ct := x.ifaceContract(c); ct != nil && ct.HasMod && len(ct.Modifies) == 0 {
			return true
		}
	}
	return false
}

func (x *Exec) heapsOfAddr(a ssa.Value) []string {
	switch a := a.(type) {
	case *ssa.FieldAddr:
		pt := a.X.Type().Underlying().(*types.Pointer).Elem()
		h, _ := x.fieldHeap(pt, a.Field)
		return []string{h}
	case *ssa.IndexAddr:
		switch t := a.X.Type().Underlying().(type) {
		case *types.Slice:
			h, _ := x.elemHeap(t.Elem())
			return []string{h}
		case *types.Pointer:
			h, _ := x.elemHeap(t.Elem().Underlying().(*types.Array).Elem())
			return []string{h}
		}
	case *ssa.Alloc:
		if st, ok := deref(a.Type()).Underlying().(*types.Struct); ok {
			var hs []string
			for i := 0; i < st.NumFields(); i++ {
				h, _ := x.fieldHeap(deref(a.Type()), i)
				hs = append(hs, h)
			}
			return hs
		}
		h, _ := x.ptrHeap(deref(a.Type()))
		return []string{h}
	default:
		if p, ok := a.Type().Underlying().(*types.Pointer); ok {
			if st, ok := p.Elem().Underlying().(*types.Struct); ok {
				var hs []string
				for i := 0; i < st.NumFields(); i++ {
					h, _ := x.fieldHeap(p.Elem(), i)
					hs = append(hs, h)
				}
				return hs
			}
			h, _ := x.ptrHeap(p.Elem())
			return []string{h}
		}
	}
	return nil
}

func deref(t types.Type) types.Type {
	if p, ok := t.Underlying().(*types.Pointer); ok {
		return p.Elem()
	}
	return t
}

// isRegCell: an Alloc whose address never escapes (only loads/stores through it, debug refs, closure captures).
func (x *Exec) isRegCell(a *ssa.Alloc) bool {
	et := deref(a.Type())
	switch et.Underlying().(type) {
	case *types.Struct, *types.Array:
		return false
	}
	for _, r := range *a.Referrers() {
		switch r := r.(type) {
		case *ssa.Store:
			if r.Val == ssa.Value(a) {
				return false
			}
		case *ssa.UnOp:
			if r.Op != token.MUL {
				return false
			}
		case *ssa.DebugRef:
		case *ssa.MakeClosure:
		default:
			return false
		}
	}
	return true
}

func (x *Exec) execInstrs(fr *frame, st *State, b *ssa.BasicBlock, from int, pred *ssa.BasicBlock, depth int) []outcome {
	if depth > 4000 {
		x.diag("execution depth exceeded in %s", fr.fn.Name())
		return nil
	}
	for i := from; i < len(b.Instrs); i++ {
		switch in := b.Instrs[i].(type) {
		case *ssa.DebugRef:
		case *ssa.Alloc:
			x.doAlloc(fr, st, in)
		case *ssa.Store:
			x.doStore(fr, st, in)
		case *ssa.UnOp:
			x.doUnOp(fr, st, in)
		case *ssa.BinOp:
			x.doBinOp(fr, st, in)
		case *ssa.FieldAddr:
			base := x.val(fr, st, in.X)
			pt := in.X.Type().Underlying().(*types.Pointer).Elem()
			h, _ := x.fieldHeap(pt, in.Field)
			x.safety(st, "nil", "field-of-nil", smt.Not(smt.Eq(base, smt.IntLit(0))), in)
			fr.addrs[in] = addr{kind: "field", heap: h, base: base, typ: pt.Underlying().(*types.Struct).Field(in.Field).Type()}
		case *ssa.Field:
			sv := x.val(fr, st, in.X)
			stt := in.X.Type().Underlying().(*types.Struct)
			name := "S$" + typeName(in.X.Type())
			x.structSort(in.X.Type(), stt)
			fr.regs[in] = smt.App(x.sortOf(stt.Field(in.Field).Type()), smt.Sym(fmt.Sprintf("%s.%d", name, in.Field)), sv)
		case *ssa.IndexAddr:
			x.doIndexAddr(fr, st, in)
		case *ssa.Index:
			av := x.val(fr, st, in.X)
			iv := x.val(fr, st, in.Index)
			fr.regs[in] = smt.Select(av, iv)
		case *ssa.Extract:
			tu := fr.tuples[in.Tuple]
			if in.Index < len(tu) {
				fr.regs[in] = tu[in.Index]
			} else {
				fr.regs[in] = x.freshOf(st, "extract", in.Type())
			}
		case *ssa.Slice:
			x.doSlice(fr, st, in)
		case *ssa.MakeSlice:
			ln := x.val(fr, st, in.Len)
			cp := x.val(fr, st, in.Cap)
			ref := x.freshRef(st, "mkslice")
			fr.regs[in] = mkSlice(ref, smt.IntLit(0), ln, cp)
		case *ssa.MakeInterface:
			x.doMakeInterface(fr, st, in)
		case *ssa.ChangeInterface:
			fr.regs[in] = x.val(fr, st, in.X)
		case *ssa.ChangeType:
			fr.regs[in] = x.val(fr, st, in.X)
			if mc, ok := fr.closures[in.X]; ok {
				fr.closures[in] = mc
			}
		case *ssa.Convert:
			x.doConvert(fr, st, in)
		case *ssa.MakeClosure:
			fr.closures[in] = in
			fr.regs[in] = x.freshRef(st, "closure")
		case *ssa.MakeMap, *ssa.MakeChan:
			fr.regs[in.(ssa.Value)] = x.freshRef(st, "obj")
		case *ssa.Phi:
			for k, e := range in.Edges {
				if b.Preds[k] == pred {
					fr.regs[in] = x.val(fr, st, e)
				}
			}
		case *ssa.Lookup, *ssa.TypeAssert, *ssa.Select, *ssa.Next, *ssa.Range:
			v := in.(ssa.Value)
			if tu, ok := v.Type().(*types.Tuple); ok {
				var ts []smt.T
				for k := 0; k < tu.Len(); k++ {
					ts = append(ts, x.freshOf(st, "opaque", tu.At(k).Type()))
				}
				fr.tuples[v] = ts
			} else {
				fr.regs[v] = x.freshOf(st, "opaque", v.Type())
			}
			x.diag("%s: %T treated as opaque", fr.fn.Name(), in)
		case *ssa.MapUpdate, *ssa.Send, *ssa.Go:
			x.diag("%s: %T ignored", fr.fn.Name(), in)
		case *ssa.Defer:
			d := deferred{call: in, fnv: in.Call.Value, fr: fr}
			for _, a := range in.Call.Args {
				d.args = append(d.args, x.val(fr, st, a))
			}
			st.defers = append(st.defers, d)
		case *ssa.RunDefers:
			if n := len(st.defers); n > 0 && st.defers[n-1].fr == fr {
				return x.runDefers(fr, st, b, i, pred, depth)
			}
		case *ssa.Call:
			outs := x.doCall(fr, st, in, in.Common(), nil, depth)
			var res []outcome
			for _, o := range outs {
				if o.panicked {
					res = append(res, o)
					continue
				}
				x.bindResults(fr, in, o.results)
				res = append(res, x.execInstrs(fr, o.st, b, i+1, pred, depth+1)...)
			}
			return res
		case *ssa.If:
			c := x.val(fr, st, in.Cond)
			var res []outcome
			x.paths++
			if x.paths > x.opts.MaxPaths {
				x.diag("path limit exceeded in %s", x.fn.Name())
				return nil
			}
			if c.S != "false" {
				s1 := st.clone()
				s1.assume(c)
				s1.trace = append(s1.trace, x.branchText(in, true))
				res = append(res, x.execBlock(fr, s1, b.Succs[0], b, depth+1)...)
			}
			if c.S != "true" {
				s2 := st
				s2.assume(smt.Not(c))
				s2.trace = append(s2.trace, x.branchText(in, false))
				res = append(res, x.execBlock(fr, s2, b.Succs[1], b, depth+1)...)
			}
			return res
		case *ssa.Jump:
			return x.execBlock(fr, st, b.Succs[0], b, depth+1)
		case *ssa.Return:
			var rs []smt.T
			for _, r := range in.Results {
				rs = append(rs, x.val(fr, st, r))
			}
			return []outcome{{st: st, results: rs}}
		case *ssa.Panic:
			x.safety(st, "nopanic", "explicit-panic", smt.False, in)
			return []outcome{{st: st, panicked: true}}
		default:
			x.diag("%s: unsupported instruction %T", fr.fn.Name(), in)
		}
	}
	return nil
}

func (x *Exec) branchText(in *ssa.If, taken bool) string {
	pos := x.P.Prog.Fset.Position(in.Cond.Pos())
	s := fmt.Sprintf("%s:%d", shortFile(pos.Filename), pos.Line)
	if !taken {
		return "!" + s
	}
	return s
}

func shortFile(f string) string {
	if i := strings.LastIndex(f, "/"); i >= 0 {
		return f[i+1:]
	}
	return f
}

func (x *Exec) bindResults(fr *frame, call *ssa.Call, results []smt.T) {
	if tu, ok := call.Type().(*types.Tuple); ok && tu.Len() != 1 {
		fr.tuples[call] = results
		return
	}
	if len(results) == 1 {
		fr.regs[call] = results[0]
	}
}

// ---------- values

func (x *Exec) val(fr *frame, st *State, v ssa.Value) smt.T {
	if t, ok := fr.regs[v]; ok {
		return t
	}
	switch v := v.(type) {
	case *ssa.Const:
		return x.constant(v)
	case *ssa.Global:
		return x.ctx.Const("&g$"+v.String(), smt.Int)
	case *ssa.Function:
		return x.ctx.Const("fn$"+v.String(), smt.Int)
	case *ssa.FreeVar:
		if pv, ok := fr.freeVars[v]; ok && fr.parent != nil {
			return x.val(fr.parent, st, pv)
		}
	case *ssa.Builtin:
		return smt.IntLit(0)
	case *ssa.Alloc:
		// address of a heap-allocated object that was allocated in this frame
		if t, ok := fr.regs[v]; ok {
			return t
		}
	}
	t := x.ctx.Fresh("unk$"+v.Name(), x.sortOf(v.Type()))
	fr.regs[v] = t
	return t
}

func (x *Exec) constant(c *ssa.Const) smt.T {
	t := c.Type()
	if c.Value == nil { // zero value
		return x.zero(t)
	}
	switch c.Value.Kind() {
	case constant.Bool:
		return smt.BoolLit(constant.BoolVal(c.Value))
	case constant.Int:
		return smt.IntLitS(c.Value.ExactString())
	case constant.String:
		s := constant.StringVal(c.Value)
		k := x.ctx.Const(fmt.Sprintf("str$%x", sha1.Sum([]byte(s)))[:16], x.ctx.Sort(StrSort))
		return k
	case constant.Float:
		return x.ctx.Const("flt$"+c.Value.ExactString(), x.ctx.Sort("Float"))
	}
	return x.ctx.Fresh("const", x.sortOf(t))
}

func (x *Exec) zero(t types.Type) smt.T {
	switch u := t.Underlying().(type) {
	case *types.Basic:
		switch {
		case u.Info()&types.IsBoolean != 0:
			return smt.False
		case u.Info()&types.IsInteger != 0:
			return smt.IntLit(0)
		case u.Info()&types.IsString != 0:
			return x.ctx.Const("str$empty", x.ctx.Sort(StrSort))
		}
	case *types.Slice:
		x.declSlice()
		return mkSlice(smt.IntLit(0), smt.IntLit(0), smt.IntLit(0), smt.IntLit(0))
	case *types.Pointer, *types.Interface, *types.Signature, *types.Map, *types.Chan:
		return smt.IntLit(0)
	case *types.Struct:
		sort := x.structSort(t, u)
		var fs []smt.T
		for i := 0; i < u.NumFields(); i++ {
			fs = append(fs, x.zero(u.Field(i).Type()))
		}
		if len(fs) == 0 {
			fs = append(fs, smt.IntLit(0))
		}
		return smt.App(sort, smt.Sym("mk$S$"+typeName(t)), fs...)
	}
	return x.ctx.Const("zero$"+typeName(t), x.sortOf(t))
}

func (x *Exec) freshOf(st *State, base string, t types.Type) smt.T {
	v := x.ctx.Fresh(base, x.sortOf(t))
	st.assume(x.typeFacts(v, t)...)
	return v
}

func (x *Exec) freshRef(st *State, base string) smt.T {
	r := x.ctx.Fresh("ref$"+base, smt.Int)
	st.assume(smt.Lt(smt.IntLit(0), r))
	for _, o := range st.refs {
		st.assume(smt.Not(smt.Eq(r, o)))
	}
	for _, b := range x.params {
		switch b.typ.Underlying().(type) {
		case *types.Pointer:
			st.assume(smt.Not(smt.Eq(r, b.t)))
		case *types.Slice:
			st.assume(smt.Not(smt.Eq(r, sArr(b.t))))
		}
	}
	st.refs = append(st.refs, r)
	return r
}

// ---------- instructions

func (x *Exec) doAlloc(fr *frame, st *State, in *ssa.Alloc) {
	et := deref(in.Type())
	if x.isRegCell(in) {
		st.cells[in] = x.zero(et)
		fr.addrs[in] = addr{kind: "cell", cell: in, typ: et}
		return
	}
	ref := x.freshRef(st, "alloc$"+in.Comment)
	fr.regs[in] = ref
	switch u := et.Underlying().(type) {
	case *types.Struct:
		for i := 0; i < u.NumFields(); i++ {
			hn, hs := x.fieldHeap(et, i)
			h := x.heap(st, hn, hs)
			st.heaps[hn] = smt.Store(h, ref, x.zero(u.Field(i).Type()))
		}
	case *types.Array:
		hn, hs := x.elemHeap(u.Elem())
		_ = x.heap(st, hn, hs) // contents unconstrained except zero-ness, which we skip (over-approximation)
	default:
		hn, hs := x.ptrHeap(et)
		h := x.heap(st, hn, hs)
		st.heaps[hn] = smt.Store(h, ref, x.zero(et))
	}
}

// resolveAddr finds what a pointer-typed SSA value designates.
func (x *Exec) resolveAddr(fr *frame, st *State, p ssa.Value) (addr, *frame) {
	for f := fr; f != nil; f = f.parent {
		if a, ok := f.addrs[p]; ok {
			return a, f
		}
		if fv, ok := p.(*ssa.FreeVar); ok {
			if pv, ok := f.freeVars[fv]; ok {
				p = pv
				continue
			}
		}
		break
	}
	switch v := p.(type) {
	case *ssa.Global:
		et := deref(v.Type())
		return addr{kind: "global", heap: "G$" + v.String(), typ: et}, fr
	}
	// generic pointer value: struct pointer or scalar pointer
	et := deref(p.Type())
	base := x.val(fr, st, p)
	if _, ok := et.Underlying().(*types.Struct); ok {
		return addr{kind: "structptr", base: base, typ: et}, fr
	}
	hn, _ := x.ptrHeap(et)
	return addr{kind: "ptr", heap: hn, base: base, typ: et}, fr
}

func (x *Exec) load(fr *frame, st *State, p ssa.Value) smt.T {
	a, _ := x.resolveAddr(fr, st, p)
	switch a.kind {
	case "cell":
		if v, ok := st.cells[a.cell]; ok {
			return v
		}
		v := x.freshOf(st, "cell$"+a.cell.Comment, a.typ)
		st.cells[a.cell] = v
		return v
	case "field":
		h := x.heap(st, a.heap, smt.ArraySort(smt.Int, x.sortOf(a.typ)))
		v := smt.Select(h, a.base)
		st.assume(x.typeFacts(v, a.typ)...)
		return v
	case "elem":
		es := x.sortOf(a.typ)
		h := x.heap(st, a.heap, smt.ArraySort(smt.Int, smt.ArraySort(smt.Int, es)))
		v := smt.Select(smt.Select(h, a.base), a.idx)
		st.assume(x.typeFacts(v, a.typ)...)
		return v
	case "ptr":
		x.safetyRaw(st, "nil", "deref-nil", smt.Not(smt.Eq(a.base, smt.IntLit(0))))
		h := x.heap(st, a.heap, smt.ArraySort(smt.Int, x.sortOf(a.typ)))
		v := smt.Select(h, a.base)
		st.assume(x.typeFacts(v, a.typ)...)
		return v
	case "global":
		if isErrorType(a.typ) {
			return x.errGlobal(strings.TrimPrefix(a.heap, "G$"))
		}
		return x.heap(st, a.heap, x.sortOf(a.typ))
	case "structptr":
		stt := a.typ.Underlying().(*types.Struct)
		sort := x.structSort(a.typ, stt)
		var fs []smt.T
		for i := 0; i < stt.NumFields(); i++ {
			hn, hs := x.fieldHeap(a.typ, i)
			fs = append(fs, smt.Select(x.heap(st, hn, hs), a.base))
		}
		if len(fs) == 0 {
			fs = append(fs, smt.IntLit(0))
		}
		return smt.App(sort, smt.Sym("mk$S$"+typeName(a.typ)), fs...)
	}
	return x.freshOf(st, "load", deref(p.Type()))
}

func isErrorType(t types.Type) bool {
	n, ok := t.(*types.Named)
	return ok && n.Obj().Pkg() == nil && n.Obj().Name() == "error"
}

func (x *Exec) errGlobal(name string) smt.T {
	if t, ok := x.errGlobs[name]; ok {
		return t
	}
	t := x.ctx.Const("err$"+name, smt.Int)
	x.errGlobs[name] = t
	return t
}

func (x *Exec) doStore(fr *frame, st *State, in *ssa.Store) {
	v := x.val(fr, st, in.Val)
	a, _ := x.resolveAddr(fr, st, in.Addr)
	switch a.kind {
	case "cell":
		st.cells[a.cell] = v
	case "field":
		h := x.heap(st, a.heap, smt.ArraySort(smt.Int, x.sortOf(a.typ)))
		st.heaps[a.heap] = smt.Store(h, a.base, v)
	case "elem":
		es := x.sortOf(a.typ)
		h := x.heap(st, a.heap, smt.ArraySort(smt.Int, smt.ArraySort(smt.Int, es)))
		st.heaps[a.heap] = smt.Store(h, a.base, smt.Store(smt.Select(h, a.base), a.idx, v))
	case "ptr":
		x.safetyRaw(st, "nil", "store-nil", smt.Not(smt.Eq(a.base, smt.IntLit(0))))
		h := x.heap(st, a.heap, smt.ArraySort(smt.Int, x.sortOf(a.typ)))
		st.heaps[a.heap] = smt.Store(h, a.base, v)
	case "global":
		st.heaps[a.heap] = v
		x.heapSort[a.heap] = x.sortOf(a.typ)
	case "structptr":
		stt := a.typ.Underlying().(*types.Struct)
		name := "S$" + typeName(a.typ)
		x.structSort(a.typ, stt)
		for i := 0; i < stt.NumFields(); i++ {
			hn, hs := x.fieldHeap(a.typ, i)
			h := x.heap(st, hn, hs)
			fv := smt.App(x.sortOf(stt.Field(i).Type()), smt.Sym(fmt.Sprintf("%s.%d", name, i)), v)
			st.heaps[hn] = smt.Store(h, a.base, fv)
		}
	}
}

func (x *Exec) doUnOp(fr *frame, st *State, in *ssa.UnOp) {
	switch in.Op {
	case token.MUL:
		fr.regs[in] = x.load(fr, st, in.X)
		// remember closures loaded from cells? not needed
	case token.NOT:
		fr.regs[in] = smt.Not(x.val(fr, st, in.X))
	case token.SUB:
		fr.regs[in] = smt.App(smt.Int, "-", x.val(fr, st, in.X))
	case token.ARROW:
		if tu, ok := in.Type().(*types.Tuple); ok {
			var ts []smt.T
			for k := 0; k < tu.Len(); k++ {
				ts = append(ts, x.freshOf(st, "recv", tu.At(k).Type()))
			}
			fr.tuples[in] = ts
		} else {
			fr.regs[in] = x.freshOf(st, "recv", in.Type())
		}
	case token.XOR:
		f := x.ctx.Fun("bvnot$", []string{smt.Int}, smt.Int)
		fr.regs[in] = smt.App(smt.Int, f, x.val(fr, st, in.X))
	default:
		fr.regs[in] = x.freshOf(st, "unop", in.Type())
	}
}

func pow2(k int64) string {
	v := constant.Shift(constant.MakeInt64(1), token.SHL, uint(k))
	return v.ExactString()
}

func (x *Exec) doBinOp(fr *frame, st *State, in *ssa.BinOp) {
	a, b := x.val(fr, st, in.X), x.val(fr, st, in.Y)
	t := in.X.Type()
	var r smt.T
	switch in.Op {
	case token.ADD:
		if isInteger(t) {
			r = smt.Add(a, b)
			x.overflowCheck(st, r, in.Type(), in)
		} else {
			r = smt.App(x.sortOf(in.Type()), x.ctx.Fun("concat$", []string{x.sortOf(t), x.sortOf(t)}, x.sortOf(t)), a, b)
		}
	case token.SUB:
		r = smt.Sub(a, b)
		if isUnsigned(t) {
			x.safety(st, "overflow", "unsigned-sub-underflow", smt.Le(b, a), in)
		} else {
			x.overflowCheck(st, r, in.Type(), in)
		}
	case token.MUL:
		r = smt.Mul(a, b)
		x.overflowCheck(st, r, in.Type(), in)
	case token.QUO:
		x.safety(st, "nopanic", "div-by-zero", smt.Not(smt.Eq(b, smt.IntLit(0))), in)
		r = smt.App(smt.Int, "div", a, b)
	case token.REM:
		x.safety(st, "nopanic", "mod-by-zero", smt.Not(smt.Eq(b, smt.IntLit(0))), in)
		r = smt.App(smt.Int, "mod", a, b)
	case token.SHL, token.SHR:
		if c, ok := in.Y.(*ssa.Const); ok && c.Value != nil {
			k, _ := constant.Int64Val(constant.ToInt(c.Value))
			if in.Op == token.SHL {
				r = smt.Mul(a, smt.IntLitS(pow2(k)))
				x.overflowCheck(st, r, in.Type(), in)
			} else {
				r = smt.App(smt.Int, "div", a, smt.IntLitS(pow2(k)))
			}
		} else {
			f := x.ctx.Fun("shift$"+in.Op.String(), []string{smt.Int, smt.Int}, smt.Int)
			r = smt.App(smt.Int, f, a, b)
		}
	case token.AND, token.OR, token.XOR, token.AND_NOT:
		if x.sortOf(t) == smt.Bool {
			r = map[token.Token]smt.T{token.AND: smt.And(a, b), token.OR: smt.Or(a, b)}[in.Op]
		} else {
			f := x.ctx.Fun("bv$"+map[token.Token]string{token.AND: "and", token.OR: "or", token.XOR: "xor", token.AND_NOT: "andnot"}[in.Op], []string{smt.Int, smt.Int}, smt.Int)
			r = smt.App(smt.Int, f, a, b)
			st.assume(x.typeFacts(r, in.Type())...)
		}
	case token.EQL:
		r = x.equal(a, b, t)
	case token.NEQ:
		r = smt.Not(x.equal(a, b, t))
	case token.LSS:
		r = x.less(a, b, t, "<")
	case token.LEQ:
		r = x.less(a, b, t, "<=")
	case token.GTR:
		r = x.less(b, a, t, "<")
	case token.GEQ:
		r = x.less(b, a, t, "<=")
	default:
		r = x.freshOf(st, "binop", in.Type())
	}
	fr.regs[in] = r
}

func (x *Exec) equal(a, b smt.T, t types.Type) smt.T {
	if _, ok := t.Underlying().(*types.Slice); ok { // only comparison with nil is legal
		if a.S == "(mkslice 0 0 0 0)" {
			return smt.Eq(sArr(b), smt.IntLit(0))
		}
		if b.S == "(mkslice 0 0 0 0)" {
			return smt.Eq(sArr(a), smt.IntLit(0))
		}
	}
	return smt.Eq(a, b)
}

func (x *Exec) less(a, b smt.T, t types.Type, op string) smt.T {
	if isInteger(t) {
		return smt.App(smt.Bool, op, a, b)
	}
	s := x.sortOf(t)
	f := x.ctx.Fun("lt$"+s, []string{s, s}, smt.Bool)
	if op == "<" {
		return smt.App(smt.Bool, f, a, b)
	}
	return smt.Not(smt.App(smt.Bool, f, b, a))
}

func (x *Exec) overflowCheck(st *State, r smt.T, t types.Type, in ssa.Instruction) {
	b, ok := t.Underlying().(*types.Basic)
	if !ok {
		return
	}
	lo, hi := intRange(b)
	if lo == "" {
		return
	}
	x.safety(st, "overflow", "arith-in-range", smt.And(smt.Le(smt.IntLitS(lo), r), smt.Le(r, smt.IntLitS(hi))), in)
}

func (x *Exec) doIndexAddr(fr *frame, st *State, in *ssa.IndexAddr) {
	idx := x.val(fr, st, in.Index)
	switch t := in.X.Type().Underlying().(type) {
	case *types.Slice:
		s := x.val(fr, st, in.X)
		hn, _ := x.elemHeap(t.Elem())
		x.safety(st, "nopanic", "index-in-bounds", smt.And(smt.Le(smt.IntLit(0), idx), smt.Lt(idx, sLen(s))), in)
		fr.addrs[in] = addr{kind: "elem", heap: hn, base: sArr(s), idx: smt.Add(sOff(s), idx), typ: t.Elem()}
	case *types.Pointer: // pointer to array
		arr := t.Elem().Underlying().(*types.Array)
		base := x.val(fr, st, in.X)
		hn, _ := x.elemHeap(arr.Elem())
		x.safety(st, "nopanic", "index-in-bounds", smt.And(smt.Le(smt.IntLit(0), idx), smt.Lt(idx, smt.IntLit(arr.Len()))), in)
		fr.addrs[in] = addr{kind: "elem", heap: hn, base: base, idx: idx, typ: arr.Elem()}
	}
}

func (x *Exec) doSlice(fr *frame, st *State, in *ssa.Slice) {
	var lo, hi, mx smt.T
	has := func(v ssa.Value) bool { return v != nil }
	if has(in.Low) {
		lo = x.val(fr, st, in.Low)
	} else {
		lo = smt.IntLit(0)
	}
	switch t := in.X.Type().Underlying().(type) {
	case *types.Slice:
		s := x.val(fr, st, in.X)
		if has(in.High) {
			hi = x.val(fr, st, in.High)
		} else {
			hi = sLen(s)
		}
		if has(in.Max) {
			mx = x.val(fr, st, in.Max)
		} else {
			mx = sCap(s)
		}
		x.safety(st, "nopanic", "slice-bounds", smt.And(smt.Le(smt.IntLit(0), lo), smt.Le(lo, hi), smt.Le(hi, mx), smt.Le(mx, sCap(s))), in)
		fr.regs[in] = mkSlice(sArr(s), smt.Add(sOff(s), lo), smt.Sub(hi, lo), smt.Sub(mx, lo))
	case *types.Pointer: // *[N]T
		arr := t.Elem().Underlying().(*types.Array)
		base := x.val(fr, st, in.X)
		n := smt.IntLit(arr.Len())
		if has(in.High) {
			hi = x.val(fr, st, in.High)
		} else {
			hi = n
		}
		x.declSlice()
		fr.regs[in] = mkSlice(base, lo, smt.Sub(hi, lo), smt.Sub(n, lo))
	case *types.Basic: // string slicing
		fr.regs[in] = x.freshOf(st, "substr", in.Type())
	}
}

func (x *Exec) doMakeInterface(fr *frame, st *State, in *ssa.MakeInterface) {
	xt := in.X.Type()
	v := x.val(fr, st, in.X)
	switch xt.Underlying().(type) {
	case *types.Pointer, *types.Signature, *types.Map, *types.Chan:
		fr.regs[in] = v // same identity
	case *types.Interface:
		fr.regs[in] = v
	default:
		// boxed value: fresh non-nil identity with a box function remembering the payload
		id := x.freshRef(st, "box")
		s := x.sortOf(xt)
		f := x.ctx.Fun("unbox$"+typeName(xt), []string{smt.Int}, s)
		st.assume(smt.Eq(smt.App(s, f, id), v))
		fr.regs[in] = id
	}
}

func (x *Exec) doConvert(fr *frame, st *State, in *ssa.Convert) {
	v := x.val(fr, st, in.X)
	from, to := in.X.Type(), in.Type()
	switch {
	case isInteger(from) && isInteger(to):
		fr.regs[in] = v
		if b, ok := to.Underlying().(*types.Basic); ok {
			lo, hi := intRange(b)
			if lo != "" {
				x.safety(st, "overflow", "conversion-in-range", smt.And(smt.Le(smt.IntLitS(lo), v), smt.Le(v, smt.IntLitS(hi))), in)
			}
		}
	default:
		sf, stt := x.sortOf(from), x.sortOf(to)
		if sf == stt {
			fr.regs[in] = v
			return
		}
		f := x.ctx.Fun("conv$"+typeName(from)+"$"+typeName(to), []string{sf}, stt)
		r := smt.App(stt, f, v)
		st.assume(x.typeFacts(r, to)...)
		fr.regs[in] = r
	}
}

// ---------- safety obligations

func (x *Exec) safety(st *State, kind, name string, goal smt.T, in ssa.Instruction) {
	if !x.opts.Safety || goal.S == "true" {
		return
	}
	pos := x.P.Prog.Fset.Position(in.Pos())
	x.emit(&Obligation{Kind: kind, Name: fmt.Sprintf("%s@%s:%d|%s", name, shortFile(pos.Filename), pos.Line, pathSig(st.trace)), Facts: st.facts, Goal: goal,
		Source: fmt.Sprintf("%s at %s:%d", name, shortFile(pos.Filename), pos.Line)})
	st.assume(goal)
}

func (x *Exec) safetyRaw(st *State, kind, name string, goal smt.T) {
	if !x.opts.Safety {
		return
	}
	x.emit(&Obligation{Kind: kind, Name: name + "|" + pathSig(st.trace), Facts: st.facts, Goal: goal, Source: name})
	st.assume(goal)
}

// ---------- defers

func (x *Exec) runDefers(fr *frame, st *State, b *ssa.BasicBlock, i int, pred *ssa.BasicBlock, depth int) []outcome {
	// pop the last deferred call, execute it, then re-enter at the same RunDefers instruction
	d := st.defers[len(st.defers)-1]
	st.defers = st.defers[:len(st.defers)-1]
	outs := x.doCall(fr, st, nil, &d.call.Call, d.args, depth)
	var res []outcome
	for _, o := range outs {
		if o.panicked {
			res = append(res, o)
			continue
		}
		res = append(res, x.execInstrs(fr, o.st, b, i, pred, depth+1)...)
	}
	return res
}

var _ = sort.Strings
