// Package sym is the symbolic executor over naive SSA that produces proof obligations.
package sym

import (
	"os"
	"runtime/debug"
	"crypto/sha1"
	"fmt"
	"go/constant"
	"go/token"
	"go/types"
	"sort"
	"strings"

	"golang.org/x/tools/go/ssa"

	"govc/internal/gcl"
	"govc/internal/load"
	"govc/internal/smt"
)

// Obligation is one proof goal: facts => goal.
type Obligation struct {
	Name    string // stable, line free: func|kind|label|path
	Func    string
	Kind    string
	Label   string
	Props   []string
	Facts   []smt.T
	Goal    smt.T
	Cover   bool // must be SAT (anti-vacuity)
	Source  string
	Path    string
	PathSig string
	Pos     string // file:line, informational only
	Extra   []string
	Watch   []WatchTerm // terms whose model values are asked for when the obligation is refuted
}

// WatchTerm is a named term evaluated in a counter-model.
type WatchTerm struct {
	Name string
	T    smt.T
}

type Options struct {
	Safety   bool // emit bounds / nil / overflow obligations
	MaxPaths int
}

type Exec struct {
	P             *load.Program
	fn            *ssa.Function
	ctx           *smt.Ctx
	contract      *gcl.Contract
	opts          Options
	loops         map[*ssa.BasicBlock]*load.LoopInfo
	structs       map[string]bool
	errGlobs      map[string]smt.T
	Obls          []*Obligation
	Diag          []string
	Fatal         []string // reasons why the function is outside the supported subset: nothing about it counts as proved
	paths         int
	heapSort      map[string]string
	entry         *State
	params        map[string]binding // contract-visible names at entry
	obSeq         map[string]int
	genCtr        int
	axioms        map[string]string // prelude axioms keyed by name, added when a vocabulary is used
	callOrd       map[ssa.Instruction]map[string]int
	closLoop      map[*ssa.Function]map[*ssa.BasicBlock]*load.LoopInfo
	safetyOn      bool
	watch         []WatchTerm
	addrTaken     bool
	wrapOK        bool
	typeTags      map[string]bool
	calls         []ssa.CallInstruction
	inlineDepth   int
	qdepth        int
	userAxioms    []smt.T
	axiomsLoaded  bool
	lemma         *gcl.Lemma
	trustedUsed   map[string]bool
	heapHoldsRefs map[string]bool
	fnSelf        *smt.T
	SplitFrames   bool // debugging: one frame obligation per heap instead of one per path
}

// TrustedUsed lists the assumed (trusted) contracts and library models this function's obligations relied on.
func (x *Exec) TrustedUsed() []string {
	var out []string
	for k := range x.trustedUsed {
		out = append(out, k)
	}
	sort.Strings(out)
	return out
}

func (x *Exec) noteTrusted(s string) {
	if x.trustedUsed == nil {
		x.trustedUsed = map[string]bool{}
	}
	x.trustedUsed[s] = true
}

type binding struct {
	t   smt.T
	typ types.Type
}

// addr describes where a pointer SSA value points to.
type addr struct {
	kind string // "cell", "field", "elem", "ptr", "global", "agg"
	cell *ssa.Alloc
	heap string
	base smt.T // object ref (field/ptr) or array ref (elem); for agg: the (interior) reference of the aggregate
	idx  smt.T // element index (elem)
	typ  types.Type
}

type deferred struct {
	call *ssa.Defer
	args []smt.T
	fr   *frame
}

type frame struct {
	fn       *ssa.Function
	freeVars map[*ssa.FreeVar]ssa.Value // closure bindings -> values in the parent frame
	parent   *frame
	regs     map[ssa.Value]smt.T
	tuples   map[ssa.Value][]smt.T
	addrs    map[ssa.Value]addr
	closures map[ssa.Value]*ssa.MakeClosure
	cur      *ssa.BasicBlock // block being executed (for `iter`: which range loop is the innermost one here)
}

type State struct {
	cells     map[*ssa.Alloc]smt.T
	heaps     map[string]smt.T
	gen       int
	facts     []smt.T
	defers    []deferred
	trace     []string
	refs      []smt.T
	refsMaybe []maybeRef
	callRes   map[ssa.CallInstruction][]smt.T // results of the calls executed on this path (latest execution)
	loopEntry map[*ssa.BasicBlock]*State      // state in which each loop (by header) was entered on this path: atloop(e)
	callArgs  map[ssa.CallInstruction][]smt.T // explicit arguments (receiver excluded) of the calls executed on this path: callarg(F, n, k)
}

func (s *State) clone() *State {
	n := &State{cells: make(map[*ssa.Alloc]smt.T, len(s.cells)), heaps: make(map[string]smt.T, len(s.heaps)), gen: s.gen}
	for k, v := range s.cells {
		n.cells[k] = v
	}
	for k, v := range s.heaps {
		n.heaps[k] = v
	}
	n.facts = append([]smt.T(nil), s.facts...)
	n.defers = append([]deferred(nil), s.defers...)
	n.trace = append([]string(nil), s.trace...)
	n.refs = append([]smt.T(nil), s.refs...)
	n.refsMaybe = append([]maybeRef(nil), s.refsMaybe...)
	if s.callRes != nil {
		n.callRes = make(map[ssa.CallInstruction][]smt.T, len(s.callRes))
		for k, v := range s.callRes {
			n.callRes[k] = v
		}
	}
	if s.callArgs != nil {
		n.callArgs = make(map[ssa.CallInstruction][]smt.T, len(s.callArgs))
		for k, v := range s.callArgs {
			n.callArgs[k] = v
		}
	}
	if s.loopEntry != nil {
		n.loopEntry = make(map[*ssa.BasicBlock]*State, len(s.loopEntry))
		for k, v := range s.loopEntry {
			n.loopEntry[k] = v
		}
	}
	return n
}

// enterLoop records the state in which the loop with header b is entered (for atloop(e) in its invariants and in call
// clauses inside its body).
func (s *State) enterLoop(b *ssa.BasicBlock) *State {
	n := s.clone()
	snap := s.clone()
	snap.loopEntry = nil
	if n.loopEntry == nil {
		n.loopEntry = map[*ssa.BasicBlock]*State{}
	}
	n.loopEntry[b] = snap
	return n
}

func (s *State) assume(fs ...smt.T) {
	for _, f := range fs {
		if f.S != "true" {
			s.facts = append(s.facts, f)
		}
	}
}

// outcome of running a function body: final state and result terms.
type outcome struct {
	st       *State
	results  []smt.T
	panicked bool
}

func New(p *load.Program, fn *ssa.Function, c *gcl.Contract, opts Options) *Exec {
	if opts.MaxPaths == 0 {
		opts.MaxPaths = 3000
	}
	x := &Exec{P: p, fn: fn, ctx: smt.NewCtx(), contract: c, opts: opts, structs: map[string]bool{},
		errGlobs: map[string]smt.T{}, heapSort: map[string]string{}, obSeq: map[string]int{}, axioms: map[string]string{},
		callOrd: map[ssa.Instruction]map[string]int{}, closLoop: map[*ssa.Function]map[*ssa.BasicBlock]*load.LoopInfo{}, typeTags: map[string]bool{}}
	if c != nil && c.WrapOK {
		x.wrapOK = true
	}
	x.safetyOn = opts.Safety
	if c != nil && c.Safety == "on" {
		x.safetyOn = true
	}
	if c != nil && c.Safety == "off" {
		x.safetyOn = false
	}
	return x
}

func (x *Exec) diag(format string, a ...any) {
	m := fmt.Sprintf(format, a...)
	for _, d := range x.Diag {
		if d == m {
			return
		}
	}
	x.Diag = append(x.Diag, m)
}

func (x *Exec) fatal(format string, a ...any) {
	m := fmt.Sprintf(format, a...)
	for _, d := range x.Fatal {
		if d == m {
			return
		}
	}
	x.Fatal = append(x.Fatal, m)
}

// heap returns the current version of a heap in st, creating the epoch's initial version lazily.
func (x *Exec) heap(st *State, name, sort string) smt.T {
	if h, ok := st.heaps[name]; ok {
		// keep heap terms small and trigger-friendly: a large update chain (or one with a conditional) gets a name
		if len(h.S) > 240 || strings.Contains(h.S, "(ite ") {
			c := x.ctx.Fresh(name, h.Sort)
			st.assume(smt.Eq(c, h))
			st.heaps[name] = c
			return c
		}
		return h
	}
	x.regHeap(name, sort)
	h := x.ctx.Const(fmt.Sprintf("%s@%d", name, st.gen), sort)
	st.heaps[name] = h
	if st.gen == 0 && x.fn != nil {
		x.entryHeapAxiom(name, sort, h)
	}
	return h
}

// havocAll forgets everything about every heap (unknown side effects).
func (x *Exec) havocAll(st *State) {
	x.genCtr++
	st.gen = x.genCtr
	st.heaps = map[string]smt.T{}
}

func (x *Exec) havocHeap(st *State, name string) {
	sort, ok := x.heapSort[name]
	if !ok {
		return
	}
	st.heaps[name] = x.ctx.Fresh(name, sort)
}

// Run verifies the function against its contract and returns the obligations.
func (x *Exec) Run() {
	defer func() {
		if r := recover(); r != nil {
			if os.Getenv("GOVC_STACK") != "" {
				fmt.Fprintf(os.Stderr, "%s\n", debug.Stack())
			}
			x.fatal("internal error while executing %s: %v", x.fn.Name(), r)
		}
	}()
	fn := x.fn
	if len(fn.Blocks) == 0 {
		x.fatal("no body")
		return
	}
	x.loadAxioms()
	x.loops = load.Loops(fn)
	st := &State{cells: map[*ssa.Alloc]smt.T{}, heaps: map[string]smt.T{}}
	fr := x.newFrame(fn, nil, nil)
	x.params = map[string]binding{}
	for _, p := range fn.Params {
		v := x.ctx.Const("p$"+p.Name(), x.sortOf(p.Type()))
		fr.regs[p] = v
		st.assume(x.typeFacts(v, p.Type())...)
		x.params[p.Name()] = binding{v, p.Type()}
		x.watchParam(p.Name(), v, p.Type())
		if isTypeParam(p.Type()) {
			continue
		}
		switch p.Type().Underlying().(type) {
		case *types.Pointer, *types.Interface, *types.Map, *types.Chan, *types.Signature:
			st.assume(x.notFresh(v))
		case *types.Slice:
			st.assume(x.notFresh(sArr(v)))
		case *types.Struct:
			x.structNotFresh(st, p.Type(), v)
		}
	}
	// a function literal verified on its own: each captured variable is a pointer to a cell that existed before the call
	for i, fv := range fn.FreeVars {
		v := x.ctx.Const("fv$"+fv.Name(), smt.Int)
		fr.regs[fv] = v
		st.assume(smt.Not(smt.Eq(v, smt.IntLit(0))), x.notFresh(v))
		for _, other := range fn.FreeVars[:i] {
			st.assume(smt.Not(smt.Eq(v, fr.regs[other])))
		}
	}
	if recv := fn.Signature.Recv(); recv != nil && len(fn.Params) > 0 {
		if _, ok := recv.Type().(*types.Pointer); ok {
			st.assume(smt.Not(smt.Eq(fr.regs[fn.Params[0]], smt.IntLit(0)))) // receiver is non-nil (caller's obligation)
		}
	}
	x.entry = st.clone()
	if x.contract != nil {
		for _, r := range x.allRequires() {
			t, err := x.evalClause(r.E, st, x.entry, fr, nil)
			if err != nil {
				x.fatal("requires %q: %v", r.Src, err)
				continue
			}
			st.assume(t)
		}
		// cover: preconditions satisfiable
		x.emit(&Obligation{Kind: "cover", Label: "pre-satisfiable", Facts: st.facts, Goal: smt.False, Cover: true, Source: "requires clauses are jointly satisfiable"}, st)
		x.entry = st.clone()
	}
	x.checkBindings()
	outs := x.execBlock(fr, st, fn.Blocks[0], nil, 0)
	nret := 0
	for _, o := range outs {
		if o.panicked {
			continue
		}
		nret++
		x.checkPost(fr, o)
	}
	if nret == 0 && len(x.Fatal) == 0 {
		x.diag("no returning path")
	}
}

// allRequires / allEnsures merge the function's own clauses with those of the interface contracts it implements.
func (x *Exec) allRequires() []gcl.Clause {
	rs := append([]gcl.Clause(nil), x.contract.Requires...)
	for _, k := range x.contract.Implements {
		if ic := x.lookupIfaceContract(k); ic != nil {
			rs = append(rs, ic.Requires...)
		} else {
			x.fatal("implements %s: no such interface contract", k)
		}
	}
	return rs
}

func (x *Exec) allEnsures() []gcl.Clause {
	if x.contract.Assumed {
		// an assumed contract selected for a property: only its exit (and call) clauses are verified against the body,
		// the ensures / fresh / modifies clauses stay assumptions of the callers (listed as UNVERIFIED in the evidence)
		return append([]gcl.Clause(nil), x.contract.Exits...)
	}
	es := append([]gcl.Clause(nil), x.contract.Ensures...)
	es = append(es, x.contract.Exits...)
	for _, k := range x.contract.Implements {
		if ic := x.lookupIfaceContract(k); ic != nil {
			for _, e := range ic.Ensures {
				e2 := e
				if e2.Label == "" {
					e2.Label = fmt.Sprintf("refine-%s-l%d", shortName(k), len(es))
				} else {
					e2.Label = "refine-" + e2.Label
				}
				es = append(es, e2)
			}
		}
	}
	return es
}

func (x *Exec) lookupIfaceContract(k string) *gcl.Contract {
	if c, ok := x.P.Contracts[k]; ok {
		return c
	}
	for key, c := range x.P.Contracts {
		if c.Kind == "iface" && strings.HasSuffix(key, "/"+k) || strings.HasSuffix(key, "."+k) && c.Kind == "iface" {
			return c
		}
	}
	return nil
}

// checkBindings reports loop / call clauses that do not bind to anything in the current body.
func (x *Exec) checkBindings() {
	if x.contract == nil {
		return
	}
	for n := range x.contract.Loops {
		found := false
		for _, li := range x.loops {
			if li.Ordinal == n {
				found = true
			}
		}
		if !found {
			x.fatal("contract names loop %d but the function has only %d loops", n, len(x.loops))
		}
	}
	for _, ca := range x.contract.CallAsserts {
		if n := x.countCalls(ca.Callee); n == 0 || ca.N >= n {
			x.fatal("call clause %d of %s does not bind (function has %d such calls)", ca.N, ca.Callee, n)
		}
	}
}

func (x *Exec) newFrame(fn *ssa.Function, parent *frame, mc *ssa.MakeClosure) *frame {
	fr := &frame{fn: fn, parent: parent, regs: map[ssa.Value]smt.T{}, tuples: map[ssa.Value][]smt.T{}, addrs: map[ssa.Value]addr{},
		closures: map[ssa.Value]*ssa.MakeClosure{}, freeVars: map[*ssa.FreeVar]ssa.Value{}}
	if mc != nil {
		for i, fv := range fn.FreeVars {
			fr.freeVars[fv] = mc.Bindings[i]
		}
	}
	return fr
}

func (x *Exec) FuncName() string {
	if x.fn == nil {
		return "lemma." + x.lemma.Name
	}
	fnName := load.FuncKey(x.fn)
	if i := strings.LastIndex(fnName, "/"); i >= 0 {
		fnName = fnName[i+1:]
	}
	return fnName
}

func (x *Exec) emit(o *Obligation, st *State) {
	o.Func = x.FuncName()
	if st != nil {
		o.PathSig = pathSig(st.trace)
		o.Path = strings.Join(st.trace, " ; ")
	}
	base := fmt.Sprintf("%s|%s|%s|%s", o.Func, o.Kind, o.Label, o.PathSig)
	x.obSeq[base]++
	if x.obSeq[base] > 1 {
		base = fmt.Sprintf("%s#%d", base, x.obSeq[base])
	}
	o.Name = base
	if x.contract != nil {
		o.Props = x.contract.Props
	}
	// a label of the form "C11,C02:name" restricts the obligation to these properties
	if i := strings.Index(o.Label, ":"); i > 0 {
		ps := strings.Split(o.Label[:i], ",")
		ok := true
		for _, p := range ps {
			if len(p) < 3 || p[0] != 'C' {
				ok = false
			}
		}
		if ok {
			o.Props = ps
		}
	}
	o.Facts = append([]smt.T(nil), o.Facts...)
	o.Watch = x.watch
	x.Obls = append(x.Obls, o)
}

func pathSig(trace []string) string {
	h := sha1.Sum([]byte(strings.Join(trace, ";")))
	return fmt.Sprintf("p:%x", h[:3])
}

func (x *Exec) checkPost(fr *frame, o outcome) {
	if x.contract == nil {
		return
	}
	x.emit(&Obligation{Kind: "cover", Label: "return-reachable", Facts: o.st.facts, Goal: smt.False, Cover: true, Source: "this return path is reachable"}, o.st)
	for i, e := range x.allEnsures() {
		t, err := x.evalClause(e.E, o.st, x.entry, fr, o.results)
		if err != nil {
			x.fatal("ensures %q: %v", e.Src, err)
			continue
		}
		label := e.Label
		if label == "" {
			label = fmt.Sprintf("ensures%d", i)
		}
		x.emit(&Obligation{Kind: "post", Label: label, Facts: o.st.facts, Goal: t, Source: e.Src}, o.st)
	}
	if x.contract.Assumed {
		return
	}
	for _, name := range x.contract.Fresh {
		t, err := x.evalClauseTyped(gcl.Ident{Name: name}, o.st, x.entry, fr, o.results)
		if err != nil {
			x.fatal("fresh %s: %v", name, err)
			continue
		}
		r := t
		if r.Sort == SliceSort {
			r = sArr(r)
		}
		x.emit(&Obligation{Kind: "post", Label: "fresh-" + name, Facts: o.st.facts, Goal: smt.Or(smt.Eq(r, smt.IntLit(0)), smt.Not(x.notFresh(r))), Source: "fresh " + name}, o.st)
	}
	x.checkFrame(fr, o)
}

func (x *Exec) evalClauseTyped(e gcl.Expr, st, old *State, fr *frame, results []smt.T) (smt.T, error) {
	return x.evalClause(e, st, old, fr, results)
}

// ---------- block execution

func (x *Exec) loopsOf(fr *frame) map[*ssa.BasicBlock]*load.LoopInfo {
	if fr.parent == nil {
		return x.loops
	}
	if l, ok := x.closLoop[fr.fn]; ok {
		return l
	}
	l := load.Loops(fr.fn)
	x.closLoop[fr.fn] = l
	return l
}

func (x *Exec) execBlock(fr *frame, st *State, b *ssa.BasicBlock, pred *ssa.BasicBlock, depth int) []outcome {
	fr.cur = b
	if li, ok := x.loopsOf(fr)[b]; ok {
		if fr.parent != nil {
			// loop inside an inlined closure: cut at the header; invariants come from a `loop <closure>:<n>` block if present
			var lc *gcl.Loop
			name := fmt.Sprintf("%s:%d", fr.fn.Name(), li.Ordinal)
			if x.contract != nil && x.contract.ClosureLoops != nil {
				lc = x.contract.ClosureLoops[name]
			}
			fromBack := pred != nil && li.Body[pred]
			if fromBack {
				x.assertInvNamed(fr, st, name, lc, "inv-step")
				return nil
			}
			st = st.enterLoop(b)
			x.assertInvNamed(fr, st, name, lc, "inv-init")
			st = x.havocLoop(fr, st, li)
			x.assumeInv(fr, st, li, lc)
			st.trace = append(st.trace, fmt.Sprintf("%s.loop%d", fr.fn.Name(), li.Ordinal))
			return x.execInstrs(fr, st, b, 0, pred, depth)
		}
		fromBack := pred != nil && li.Body[pred]
		lc := x.loopContract(li)
		if fromBack {
			x.assertInv(fr, st, li, lc, "inv-step")
			x.frameObligations(st, fmt.Sprintf("loop%d-step", li.Ordinal))
			return nil
		}
		st = st.enterLoop(b)
		x.assertInv(fr, st, li, lc, "inv-init")
		before := st
		st = x.havocLoop(fr, st, li)
		if st.gen == before.gen {
			var changed []string
			for h, v := range st.heaps {
				if bv, ok := before.heaps[h]; !ok || bv.S != v.S {
					changed = append(changed, h)
				}
			}
			sort.Strings(changed)
			x.assumeFrame(st, changed)
		}
		x.assumeInv(fr, st, li, lc)
		st.trace = append(st.trace, fmt.Sprintf("loop%d", li.Ordinal))
	}
	return x.execInstrs(fr, st, b, 0, pred, depth)
}

func (x *Exec) loopContract(li *load.LoopInfo) *gcl.Loop {
	if x.contract == nil {
		return nil
	}
	return x.contract.Loops[li.Ordinal]
}

func (x *Exec) assertInv(fr *frame, st *State, li *load.LoopInfo, lc *gcl.Loop, kind string) {
	if lc == nil {
		return
	}
	for i, inv := range lc.Invariants {
		t, err := x.evalClause(inv.E, st, x.entry, fr, nil)
		if err != nil {
			x.fatal("loop %d invariant %q: %v", li.Ordinal, inv.Src, err)
			continue
		}
		label := inv.Label
		if label == "" {
			label = fmt.Sprintf("inv%d", i)
		}
		x.emit(&Obligation{Kind: kind, Label: fmt.Sprintf("loop%d.%s", li.Ordinal, label), Facts: st.facts, Goal: t, Source: inv.Src}, st)
	}
}

func (x *Exec) assertInvNamed(fr *frame, st *State, name string, lc *gcl.Loop, kind string) {
	if lc == nil {
		return
	}
	for i, inv := range lc.Invariants {
		t, err := x.evalClause(inv.E, st, x.entry, fr, nil)
		if err != nil {
			x.fatal("loop %s invariant %q: %v", name, inv.Src, err)
			continue
		}
		label := inv.Label
		if label == "" {
			label = fmt.Sprintf("inv%d", i)
		}
		x.emit(&Obligation{Kind: kind, Label: fmt.Sprintf("loop-%s.%s", name, label), Facts: st.facts, Goal: t, Source: inv.Src}, st)
	}
}

func (x *Exec) assumeInv(fr *frame, st *State, li *load.LoopInfo, lc *gcl.Loop) {
	if lc == nil {
		return
	}
	for _, inv := range lc.Invariants {
		t, err := x.evalClause(inv.E, st, x.entry, fr, nil)
		if err == nil {
			st.assume(t)
		}
	}
}

// havocLoop replaces everything the loop body may assign by fresh symbols.
func (x *Exec) havocLoop(fr *frame, st *State, li *load.LoopInfo) *State {
	st = st.clone()
	defer func() {
		// the hidden index of a range loop starts at -1 and only counts up
		for _, in := range li.Header.Instrs {
			if s, ok := in.(*ssa.Store); ok {
				if a, ok := s.Addr.(*ssa.Alloc); ok && a.Comment == "rangeindex" {
					if v, ok := st.cells[a]; ok {
						st.assume(smt.Le(smt.IntLit(-1), v), smt.Le(v, smt.IntLitS("4611686018427387904")))
					}
				}
			}
		}
	}()
	heaps := map[string]bool{}
	allHeaps := false
	closureCalls := false
	for b := range li.Body {
		for _, in := range b.Instrs {
			switch in := in.(type) {
			case *ssa.Store:
				if a, ok := in.Addr.(*ssa.Alloc); ok && x.isRegCell(a) {
					x.havocCell(st, a)
				} else if fv, ok := in.Addr.(*ssa.FreeVar); ok {
					if a := x.cellOfFreeVar(fr, fv); a != nil {
						x.havocCell(st, a)
					} else {
						allHeaps = true
					}
				} else if ia, ok := in.Addr.(*ssa.IndexAddr); ok && isVarargsAlloc(ia.X) {
					// the argument array of a variadic call is allocated in this iteration and only handed to the callee:
					// filling it changes no location that exists across iterations
				} else {
					hs := x.heapsOfAddr(in.Addr)
					if hs == nil {
						allHeaps = true
					}
					for _, h := range hs {
						heaps[h] = true
					}
				}
			case *ssa.MapUpdate:
				if vn, _, hn, _, ok := x.mapHeaps(in.Map.Type()); ok {
					heaps[vn] = true
					heaps[hn] = true
				}
			case ssa.CallInstruction:
				pure, hs, clos := x.callEffects(fr, in)
				if clos {
					closureCalls = true
				}
				if !pure {
					if hs == nil {
						allHeaps = true
					}
					for _, h := range hs {
						heaps[h] = true
					}
				}
			case *ssa.RunDefers:
				closureCalls = true
				allHeaps = true
			}
		}
	}
	if closureCalls {
		// any closure of this function may run inside the loop: forget the cells closures capture and write
		for f := fr; f != nil; f = f.parent {
			for _, b := range f.fn.Blocks {
				for _, in := range b.Instrs {
					if mc, ok := in.(*ssa.MakeClosure); ok {
						for _, bv := range mc.Bindings {
							if a, ok := bv.(*ssa.Alloc); ok && x.isRegCell(a) {
								if _, live := st.cells[a]; live {
									x.havocCell(st, a)
								}
							}
						}
					}
				}
			}
		}
	}
	if allHeaps {
		x.havocAll(st)
	} else {
		for h := range heaps {
			x.havocHeap(st, h)
		}
	}
	// results of calls inside the loop body are those of an unknown earlier iteration: forget them
	for b := range li.Body {
		for _, in := range b.Instrs {
			if ci, ok := in.(ssa.CallInstruction); ok {
				delete(st.callRes, ci)
				delete(st.callArgs, ci)
			}
		}
	}
	return st
}

func (x *Exec) havocCell(st *State, a *ssa.Alloc) {
	v := x.ctx.Fresh("h$"+a.Comment, x.sortOf(deref(a.Type())))
	st.cells[a] = v
	st.assume(x.typeFacts(v, deref(a.Type()))...)
}

func (x *Exec) cellOfFreeVar(fr *frame, fv *ssa.FreeVar) *ssa.Alloc {
	var v ssa.Value = fv
	for f := fr; f != nil; f = f.parent {
		if fvv, ok := v.(*ssa.FreeVar); ok {
			if pv, ok := f.freeVars[fvv]; ok {
				v = pv
				continue
			}
		}
		break
	}
	if a, ok := v.(*ssa.Alloc); ok && x.isRegCell(a) {
		return a
	}
	return nil
}

// callEffects over-approximates what a call inside a loop may modify: pure, or the list of heaps (nil = everything).
func (x *Exec) callEffects(fr *frame, in ssa.CallInstruction) (pure bool, heaps []string, closure bool) {
	c := in.Common()
	if b, ok := c.Value.(*ssa.Builtin); ok {
		switch b.Name() {
		case "len", "cap", "max", "min", "ssa:deferstack", "panic", "print", "println", "close":
			return true, nil, false
		case "delete":
			if _, _, hn, _, ok := x.mapHeaps(c.Args[0].Type()); ok {
				return false, []string{hn}, false
			}
			return true, nil, false
		case "append", "copy":
			if sl, ok := c.Args[0].Type().Underlying().(*types.Slice); ok {
				h, _ := x.elemHeap(sl.Elem())
				return false, []string{h}, false
			}
		}
		return false, nil, false
	}
	if mc := x.findClosure(fr, c.Value); mc != nil {
		return false, nil, true
	}
	if sc := c.StaticCallee(); sc != nil {
		if x.modelled(sc) || x.knownPure(sc) {
			return true, nil, false
		}
		if ct := x.contractFor(sc); ct != nil && ct.HasMod {
			hs := x.heapsOfModifies(ct, sc.Signature, false)
			if hs != nil && len(hs) == 0 {
				return true, nil, false
			}
			return false, hs, false
		}
		if sc.Parent() != nil {
			return false, nil, true
		}
		return false, nil, false
	}
	if c.IsInvoke() {
		if ct := x.ifaceContract(c); ct != nil && ct.HasMod {
			hs := x.heapsOfModifies(ct, c.Method.Type().(*types.Signature), true)
			if hs != nil && len(hs) == 0 {
				return true, nil, false
			}
			return false, hs, false
		}
		return false, nil, false
	}
	if ct, _ := x.fnValueContract(fr, c); ct != nil && ct.HasMod {
		hs := x.heapsOfModifies(ct, c.Signature(), true)
		if hs != nil && len(hs) == 0 {
			return true, nil, false
		}
		return false, hs, false
	}
	return false, nil, true
}

func (x *Exec) heapsOfAddr(a ssa.Value) []string {
	switch a := a.(type) {
	case *ssa.FieldAddr:
		pt := a.X.Type().Underlying().(*types.Pointer).Elem()
		return x.heapsOfType(pt.Underlying().(*types.Struct).Field(a.Field).Type(), func() string { h, _ := x.fieldHeap(pt, a.Field); return h })
	case *ssa.IndexAddr:
		switch t := a.X.Type().Underlying().(type) {
		case *types.Slice:
			return x.heapsOfType(t.Elem(), func() string { h, _ := x.elemHeap(t.Elem()); return h })
		case *types.Pointer:
			et := t.Elem().Underlying().(*types.Array).Elem()
			return x.heapsOfType(et, func() string { h, _ := x.elemHeap(et); return h })
		}
	default:
		if p, ok := a.Type().Underlying().(*types.Pointer); ok {
			return x.heapsOfType(p.Elem(), func() string { h, _ := x.ptrHeap(p.Elem()); return h })
		}
	}
	return nil
}

func isVarargsAlloc(v ssa.Value) bool {
	a, ok := v.(*ssa.Alloc)
	return ok && a.Comment == "varargs"
}

// heapsOfType lists the heaps a store of a value of type t writes, given the heap of the scalar case.
func (x *Exec) heapsOfType(t types.Type, scalar func() string) []string {
	switch u := t.Underlying().(type) {
	case *types.Struct:
		var hs []string
		for i := 0; i < u.NumFields(); i++ {
			i := i
			hs = append(hs, x.heapsOfType(u.Field(i).Type(), func() string { h, _ := x.fieldHeap(t, i); return h })...)
		}
		return hs
	case *types.Array:
		return x.heapsOfType(u.Elem(), func() string { h, _ := x.elemHeap(u.Elem()); return h })
	}
	return []string{scalar()}
}

func deref(t types.Type) types.Type {
	if p, ok := t.Underlying().(*types.Pointer); ok {
		return p.Elem()
	}
	return t
}

// isRegCell: an Alloc whose address never escapes (only loads/stores through it, debug refs, closure captures).
func (x *Exec) isRegCell(a *ssa.Alloc) bool {
	et := deref(a.Type())
	if isAggregate(et) {
		return false
	}
	if a.Referrers() == nil {
		return false
	}
	for _, r := range *a.Referrers() {
		switch r := r.(type) {
		case *ssa.Store:
			if r.Val == ssa.Value(a) {
				return false
			}
		case *ssa.UnOp:
			if r.Op != token.MUL {
				return false
			}
		case *ssa.DebugRef:
		case *ssa.MakeClosure:
		default:
			return false
		}
	}
	return true
}

func (x *Exec) execInstrs(fr *frame, st *State, b *ssa.BasicBlock, from int, pred *ssa.BasicBlock, depth int) []outcome {
	if depth > 6000 {
		x.fatal("execution depth exceeded in %s", fr.fn.Name())
		return nil
	}
	for i := from; i < len(b.Instrs); i++ {
		switch in := b.Instrs[i].(type) {
		case *ssa.DebugRef:
		case *ssa.Alloc:
			x.doAlloc(fr, st, in)
		case *ssa.Store:
			x.doStore(fr, st, in)
		case *ssa.UnOp:
			x.doUnOp(fr, st, in)
		case *ssa.BinOp:
			x.doBinOp(fr, st, in)
		case *ssa.FieldAddr:
			x.doFieldAddr(fr, st, in)
		case *ssa.Field:
			sv := x.val(fr, st, in.X)
			stt := in.X.Type().Underlying().(*types.Struct)
			fr.regs[in] = x.structField(in.X.Type(), stt, in.Field, sv)
		case *ssa.IndexAddr:
			x.doIndexAddr(fr, st, in)
		case *ssa.Index:
			av := x.val(fr, st, in.X)
			iv := x.val(fr, st, in.Index)
			if isString(in.X.Type()) {
				f := x.ctx.Fun("strAt", []string{x.ctx.Sort(StrSort), smt.Int}, smt.Int)
				x.safety(st, "nopanic", "string-index-in-bounds", smt.And(smt.Le(smt.IntLit(0), iv), smt.Lt(iv, x.slen(av))), in)
				r := smt.App(smt.Int, f, av, iv)
				st.assume(x.typeFacts(r, in.Type())...)
				fr.regs[in] = r
			} else {
				fr.regs[in] = smt.Select(av, iv)
			}
		case *ssa.Extract:
			tu := fr.tuples[in.Tuple]
			if in.Index < len(tu) {
				fr.regs[in] = tu[in.Index]
			} else {
				fr.regs[in] = x.freshOf(st, "extract", in.Type())
			}
		case *ssa.Slice:
			x.doSlice(fr, st, in)
		case *ssa.MakeSlice:
			x.doMakeSlice(fr, st, in)
		case *ssa.MakeInterface:
			x.doMakeInterface(fr, st, in)
		case *ssa.ChangeInterface:
			fr.regs[in] = x.val(fr, st, in.X)
		case *ssa.ChangeType:
			fr.regs[in] = x.val(fr, st, in.X)
			if mc, ok := fr.closures[in.X]; ok {
				fr.closures[in] = mc
			}
		case *ssa.Convert:
			x.doConvert(fr, st, in)
		case *ssa.MultiConvert:
			fr.regs[in] = x.freshOf(st, "multiconvert", in.Type())
		case *ssa.SliceToArrayPointer:
			fr.regs[in] = x.freshOf(st, "s2a", in.Type())
		case *ssa.MakeClosure:
			fr.closures[in] = in
			fr.regs[in] = x.freshRef(st, "closure")
		case *ssa.MakeMap:
			x.doMakeMap(fr, st, in)
		case *ssa.MakeChan:
			ref := x.freshRef(st, "chan")
			fr.regs[in] = ref
			// the capacity of a channel is fixed at creation (contracts: cap(ch))
			f := x.ctx.Fun("chancap$", []string{smt.Int}, smt.Int)
			st.assume(smt.Eq(smt.App(smt.Int, f, ref), x.val(fr, st, in.Size)))
		case *ssa.Phi:
			set := false
			for k, e := range in.Edges {
				if b.Preds[k] == pred {
					fr.regs[in] = x.val(fr, st, e)
					set = true
				}
			}
			if !set {
				fr.regs[in] = x.freshOf(st, "phi", in.Type())
			}
		case *ssa.TypeAssert:
			x.doTypeAssert(fr, st, in)
		case *ssa.Lookup, *ssa.Select, *ssa.Next, *ssa.Range:
			if lk, ok := in.(*ssa.Lookup); ok && x.doLookup(fr, st, lk) {
				break
			}
			v := in.(ssa.Value)
			if tu, ok := v.Type().(*types.Tuple); ok {
				var ts []smt.T
				for k := 0; k < tu.Len(); k++ {
					ts = append(ts, x.freshOf(st, "opaque", tu.At(k).Type()))
				}
				fr.tuples[v] = ts
			} else {
				fr.regs[v] = x.freshOf(st, "opaque", v.Type())
			}
			x.diag("%s: %T treated as opaque", fr.fn.Name(), in)
		case *ssa.MapUpdate, *ssa.Send:
			if mu, ok := in.(*ssa.MapUpdate); ok && x.doMapUpdate(fr, st, mu) {
				break
			}
			x.diag("%s: %T has no modelled effect (maps/channels are opaque)", fr.fn.Name(), in)
		case *ssa.Go:
			x.diag("%s: go statement ignored (sequential semantics)", fr.fn.Name())
		case *ssa.Defer:
			d := deferred{call: in, fr: fr}
			for _, a := range in.Call.Args {
				d.args = append(d.args, x.val(fr, st, a))
			}
			if in.Call.IsInvoke() {
				d.args = append([]smt.T{x.val(fr, st, in.Call.Value)}, d.args...)
			}
			st.defers = append(st.defers, d)
		case *ssa.RunDefers:
			if n := len(st.defers); n > 0 && st.defers[n-1].fr == fr {
				return x.runDefers(fr, st, b, i, pred, depth)
			}
		case *ssa.Call:
			outs := x.doCall(fr, st, in, in.Common(), nil, depth)
			var res []outcome
			for _, o := range outs {
				if o.panicked {
					res = append(res, o)
					continue
				}
				x.bindResults(fr, in, o.results)
				res = append(res, x.execInstrs(fr, o.st, b, i+1, pred, depth+1)...)
			}
			return res
		case *ssa.If:
			c := x.val(fr, st, in.Cond)
			var res []outcome
			x.paths++
			if x.paths > x.opts.MaxPaths {
				x.fatal("path limit (%d) exceeded in %s", x.opts.MaxPaths, x.fn.Name())
				return nil
			}
			if c.S != "false" {
				s1 := st.clone()
				s1.assume(c)
				s1.trace = append(s1.trace, x.branchText(in, true))
				res = append(res, x.execBlock(fr, s1, b.Succs[0], b, depth+1)...)
			}
			if c.S != "true" {
				s2 := st
				s2.assume(smt.Not(c))
				s2.trace = append(s2.trace, x.branchText(in, false))
				res = append(res, x.execBlock(fr, s2, b.Succs[1], b, depth+1)...)
			}
			return res
		case *ssa.Jump:
			return x.execBlock(fr, st, b.Succs[0], b, depth+1)
		case *ssa.Return:
			var rs []smt.T
			for _, r := range in.Results {
				rs = append(rs, x.val(fr, st, r))
			}
			return []outcome{{st: st, results: rs}}
		case *ssa.Panic:
			x.safety(st, "nopanic", "explicit-panic", smt.False, in)
			return []outcome{{st: st, panicked: true}}
		default:
			x.fatal("%s: unsupported instruction %T", fr.fn.Name(), in)
			if v, ok := in.(ssa.Value); ok {
				fr.regs[v] = x.freshOf(st, "unsupported", v.Type())
			}
		}
	}
	return nil
}

// branchText identifies a branch decision by the source text position-free: the condition's expression text.
func (x *Exec) branchText(in *ssa.If, taken bool) string {
	s := x.condText(in)
	if !taken {
		return "!(" + s + ")"
	}
	return s
}

func (x *Exec) condText(in *ssa.If) string {
	pos := in.Cond.Pos()
	if !pos.IsValid() {
		pos = in.Pos()
	}
	if pos.IsValid() {
		if s := x.P.ExprTextAt(pos); s != "" {
			return s
		}
	}
	return in.Cond.Name()
}

func shortFile(f string) string {
	if i := strings.LastIndex(f, "/"); i >= 0 {
		return f[i+1:]
	}
	return f
}

func (x *Exec) bindResults(fr *frame, call *ssa.Call, results []smt.T) {
	if tu, ok := call.Type().(*types.Tuple); ok && tu.Len() != 1 {
		fr.tuples[call] = results
		return
	}
	if len(results) == 1 {
		fr.regs[call] = results[0]
	}
}

// ---------- values

func (x *Exec) val(fr *frame, st *State, v ssa.Value) smt.T {
	if t, ok := fr.regs[v]; ok {
		return t
	}
	switch v := v.(type) {
	case *ssa.Const:
		return x.constant(v)
	case *ssa.Global:
		return x.ctx.Const("&g$"+v.String(), smt.Int)
	case *ssa.Function:
		return x.ctx.Const("fn$"+v.String(), smt.Int)
	case *ssa.FreeVar:
		if pv, ok := fr.freeVars[v]; ok && fr.parent != nil {
			return x.val(fr.parent, st, pv)
		}
		for f := fr; f != nil; f = f.parent {
			if t, ok := f.regs[v]; ok {
				return t
			}
		}
	case *ssa.Builtin:
		return smt.IntLit(0)
	case *ssa.FieldAddr, *ssa.IndexAddr:
		if a, ok := fr.addrs[v]; ok {
			if a.kind == "agg" {
				return a.base
			}
			// address of a scalar location used as a value
			x.addrTaken = true
			var t smt.T
			if a.kind == "field" {
				t = smt.App(smt.Int, x.ctx.Fun("addr$"+a.heap, []string{smt.Int}, smt.Int), a.base)
			} else {
				t = smt.App(smt.Int, x.ctx.Fun("addr$"+a.heap, []string{smt.Int, smt.Int}, smt.Int), a.base, a.idx)
			}
			st.assume(smt.Lt(smt.IntLit(0), t))
			fr.regs[v] = t
			return t
		}
	}
	if fr.parent != nil {
		// a value of an enclosing frame referenced from an inlined closure body cannot occur in SSA (only via FreeVars)
	}
	t := x.ctx.Fresh("unk$"+v.Name(), x.sortOf(v.Type()))
	st.assume(x.typeFacts(t, v.Type())...)
	fr.regs[v] = t
	return t
}

func (x *Exec) constant(c *ssa.Const) smt.T {
	t := c.Type()
	if c.Value == nil { // zero value
		return x.zero(t)
	}
	switch c.Value.Kind() {
	case constant.Bool:
		return smt.BoolLit(constant.BoolVal(c.Value))
	case constant.Int:
		return smt.IntLitS(c.Value.ExactString())
	case constant.String:
		return x.strConst(constant.StringVal(c.Value))
	case constant.Float:
		if isInteger(t) {
			if iv := constant.ToInt(c.Value); iv.Kind() == constant.Int {
				return smt.IntLitS(iv.ExactString())
			}
		}
		return x.ctx.Const("flt$"+c.Value.ExactString(), x.ctx.Sort("Float"))
	}
	return x.ctx.Fresh("const", x.sortOf(t))
}

func (x *Exec) strConst(s string) smt.T {
	if s == "" {
		k := x.ctx.Const("str$empty", x.ctx.Sort(StrSort))
		x.axioms["str$empty"] = "(assert (= (slen str$empty) 0))"
		x.slen(k)
		return k
	}
	name := fmt.Sprintf("str$%x", sha1.Sum([]byte(s)))[:18]
	k := x.ctx.Const(name, x.ctx.Sort(StrSort))
	x.slen(k)
	x.axioms[name] = fmt.Sprintf("(assert (= (slen %s) %d))", name, len(s))
	return k
}

func (x *Exec) zero(t types.Type) smt.T {
	if isTypeParam(t) {
		return x.ctx.Const("zero$"+typeName(t), x.sortOf(t))
	}
	switch u := t.Underlying().(type) {
	case *types.Basic:
		switch {
		case u.Info()&types.IsBoolean != 0:
			return smt.False
		case u.Info()&types.IsInteger != 0:
			return smt.IntLit(0)
		case u.Info()&types.IsString != 0:
			return x.strConst("")
		}
	case *types.Slice:
		x.declSlice()
		return nilSlice
	case *types.Pointer, *types.Interface, *types.Signature, *types.Map, *types.Chan:
		return smt.IntLit(0)
	case *types.Struct:
		var fs []smt.T
		for i := 0; i < u.NumFields(); i++ {
			fs = append(fs, x.zero(u.Field(i).Type()))
		}
		return x.mkStruct(t, u, fs)
	case *types.Array:
		srt := x.sortOf(t)
		return x.zeroArray(srt, x.zero(u.Elem()))
	}
	return x.ctx.Const("zero$"+typeName(t), x.sortOf(t))
}

func (x *Exec) freshOf(st *State, base string, t types.Type) smt.T {
	v := x.ctx.Fresh(base, x.sortOf(t))
	st.assume(x.typeFacts(v, t)...)
	return v
}

func (x *Exec) freshRef(st *State, base string) smt.T {
	r := x.ctx.Fresh("ref$"+base, smt.Int)
	st.assume(smt.Lt(smt.IntLit(0), r))
	st.assume(x.freshnessOf(st, r))
	st.assume(smt.Not(x.notFresh(r)))
	// everything reachable at entry was allocated before: heap contents at entry never point to a fresh object.
	// (expressed lazily through allocBefore: refs loaded from entry-epoch heaps are not constrained; see DESIGN 2.3)
	st.refs = append(st.refs, r)
	return r
}

func (x *Exec) freshnessOf(st *State, r smt.T) smt.T {
	var fs []smt.T
	for _, o := range st.refs {
		fs = append(fs, smt.Not(smt.Eq(r, o)))
	}
	// a new object differs from whatever the local variables currently refer to
	var cells []*ssa.Alloc
	for a := range st.cells {
		cells = append(cells, a)
	}
	sort.Slice(cells, func(i, j int) bool { return cells[i].Pos() < cells[j].Pos() })
	for _, a := range cells {
		v := st.cells[a]
		et := deref(a.Type())
		if isTypeParam(et) {
			continue
		}
		switch et.Underlying().(type) {
		case *types.Pointer, *types.Interface, *types.Map, *types.Chan:
			if v.Sort == smt.Int && v.S != "0" {
				fs = append(fs, smt.Not(smt.Eq(r, v)))
			}
		case *types.Slice:
			if v.Sort == SliceSort && v.S != nilSlice.S {
				fs = append(fs, smt.Not(smt.Eq(r, sArr(v))))
			}
		}
	}
	names := make([]string, 0, len(x.params))
	for n := range x.params {
		names = append(names, n)
	}
	sort.Strings(names)
	for _, n := range names {
		b := x.params[n]
		if isTypeParam(b.typ) {
			continue
		}
		switch b.typ.Underlying().(type) {
		case *types.Pointer, *types.Interface, *types.Map, *types.Chan, *types.Signature:
			fs = append(fs, smt.Not(smt.Eq(r, b.t)))
		case *types.Slice:
			fs = append(fs, smt.Not(smt.Eq(r, sArr(b.t))))
		}
		// one level into the objects the parameters point to: a new object is none of the buffers / objects their fields hold now
		if pt, ok := b.typ.Underlying().(*types.Pointer); ok {
			if stt, ok := pt.Elem().Underlying().(*types.Struct); ok {
				for i := 0; i < stt.NumFields(); i++ {
					ft := stt.Field(i).Type()
					if isTypeParam(ft) || isAggregate(ft) {
						continue
					}
					hn, hs := x.fieldHeap(pt.Elem(), i)
					switch fu := ft.Underlying().(type) {
					case *types.Slice:
						fs = append(fs, smt.Not(smt.Eq(r, sArr(smt.Select(x.heap(st, hn, hs), b.t)))))
						// ... nor any of the objects such a buffer holds, if it is a buffer of references
						if isTypeParam(fu.Elem()) {
							break
						}
						switch fu.Elem().Underlying().(type) {
						case *types.Pointer, *types.Interface, *types.Map, *types.Chan:
							en, es := x.elemHeap(fu.Elem())
							row := smt.Select(x.heap(st, en, es), sArr(smt.Select(x.heap(st, hn, hs), b.t)))
							sel := "(select " + row.S + " i!n)"
							fs = append(fs, smt.Raw("(forall ((i!n Int)) (! (not (= "+sel+" "+r.S+")) :pattern ("+sel+")))", smt.Bool))
						}
					case *types.Pointer, *types.Interface, *types.Map, *types.Chan:
						fs = append(fs, smt.Not(smt.Eq(r, smt.Select(x.heap(st, hn, hs), b.t))))
					}
				}
			}
		}
	}
	return smt.And(fs...)
}

// ---------- safety obligations

func (x *Exec) posOf(in ssa.Instruction) string {
	p := in.Pos()
	if !p.IsValid() {
		if v, ok := in.(ssa.Value); ok {
			if rs := v.Referrers(); rs != nil {
				for _, r := range *rs {
					if r.Pos().IsValid() {
						p = r.Pos()
						break
					}
				}
			}
		}
	}
	pos := x.P.Prog.Fset.Position(p)
	return fmt.Sprintf("%s:%d", shortFile(pos.Filename), pos.Line)
}

func (x *Exec) safety(st *State, kind, name string, goal smt.T, in ssa.Instruction) {
	if goal.S == "true" {
		return
	}
	if !x.safetyOn {
		return
	}
	text := ""
	if in != nil && in.Pos().IsValid() {
		text = x.P.ExprTextAt(in.Pos())
	}
	label := name
	if text != "" {
		label = name + "@" + text
	}
	o := &Obligation{Kind: kind, Label: label, Facts: st.facts, Goal: goal, Source: fmt.Sprintf("%s at %s", name, text)}
	if in != nil {
		o.Pos = x.posOf(in)
	}
	x.emit(o, st)
	st.assume(goal)
}

// ---------- defers

func (x *Exec) runDefers(fr *frame, st *State, b *ssa.BasicBlock, i int, pred *ssa.BasicBlock, depth int) []outcome {
	// pop the last deferred call, execute it, then re-enter at the same RunDefers instruction
	d := st.defers[len(st.defers)-1]
	st.defers = st.defers[:len(st.defers)-1]
	outs := x.doCall(fr, st, d.call, &d.call.Call, d.args, depth)
	var res []outcome
	for _, o := range outs {
		if o.panicked {
			res = append(res, o)
			continue
		}
		res = append(res, x.execInstrs(fr, o.st, b, i, pred, depth+1)...)
	}
	return res
}

// watchParam registers model queries for a parameter (used to build replay inputs).
func (x *Exec) watchParam(name string, v smt.T, t types.Type) {
	switch u := t.Underlying().(type) {
	case *types.Basic:
		if u.Info()&(types.IsInteger|types.IsBoolean) != 0 {
			x.watch = append(x.watch, WatchTerm{name, v})
		}
	case *types.Slice:
		x.watch = append(x.watch, WatchTerm{"len(" + name + ")", sLen(v)}, WatchTerm{"isnil(" + name + ")", smt.Eq(sArr(v), smt.IntLit(0))})
		if b, ok := u.Elem().Underlying().(*types.Basic); ok && b.Info()&(types.IsInteger|types.IsBoolean) != 0 {
			hn, hs := x.elemHeap(u.Elem())
			h := x.ctx.Const(fmt.Sprintf("%s@0", hn), hs)
			for i := 0; i < 12; i++ {
				x.watch = append(x.watch, WatchTerm{fmt.Sprintf("%s[%d]", name, i), smt.Select(smt.Select(h, sArr(v)), x.at(sOff(v), smt.IntLit(int64(i))))})
			}
		}
	case *types.Pointer, *types.Interface:
		x.watch = append(x.watch, WatchTerm{name + "==nil", smt.Eq(v, smt.IntLit(0))})
	}
}

// entryHeapAxiom: what the heap held when the function was entered was allocated before: no fresh references.
func (x *Exec) entryHeapAxiom(name, sort string, h smt.T) {
	if _, ok := x.axioms["nofresh:"+name]; ok {
		return
	}
	if !strings.HasPrefix(sort, "(Array ") {
		return
	}
	x.ctx.Fun("fresh$", []string{smt.Int}, smt.Bool)
	idx := indexSortOf(sort)
	el := elemSortOf(sort)
	// only objects that existed at entry are covered: what the entry heap "holds" at a not yet allocated reference is
	// meaningless (callee contracts describe the fields of fresh objects through the same heap term)
	switch {
	case strings.HasPrefix(name, "GH$") || strings.HasPrefix(name, "G$"):
		return
	case el == smt.Int && (strings.Contains(name, "*") || x.heapHoldsRefs[name]) && idx == smt.Int:
		x.axioms["nofresh:"+name] = "(assert (forall ((r!a Int)) (! (=> (not (fresh$ r!a)) (not (fresh$ (select " + h.S + " r!a)))) :pattern ((select " + h.S + " r!a)))))"
	case el == SliceSort && idx == smt.Int:
		sl := "(select " + h.S + " r!a)"
		x.axioms["nofresh:"+name] = "(assert (forall ((r!a Int)) (! (=> (not (fresh$ r!a)) (not (fresh$ (s.arr " + sl + ")))) :pattern (" + sl + "))))\n" +
			// every slice stored in the heap is well formed
			"(assert (forall ((r!a Int)) (! (and (<= 0 (s.off " + sl + ")) (<= 0 (s.len " + sl + ")) (<= (s.len " + sl + ") (s.cap " + sl + ")) (<= 0 (s.arr " + sl + ")) (=> (= (s.arr " + sl + ") 0) (and (= (s.len " + sl + ") 0) (= (s.cap " + sl + ") 0)))) :pattern (" + sl + "))))"
	case strings.HasPrefix(name, "MV$") && elemSortOf(el) == smt.Int && x.heapHoldsRefs[name]:
		ks := indexSortOf(el)
		x.axioms["nofresh:"+name] = "(assert (forall ((r!a Int) (k!a " + ks + ")) (! (=> (not (fresh$ r!a)) (not (fresh$ (select (select " + h.S + " r!a) k!a)))) :pattern ((select (select " + h.S + " r!a) k!a)))))"
	case strings.HasPrefix(el, "(Array Int ") && strings.HasPrefix(name, "E$") && (elemSortOf(el) == smt.Int && x.heapHoldsRefs[name]):
		x.axioms["nofresh:"+name] = "(assert (forall ((r!a Int) (i!a Int)) (! (=> (not (fresh$ r!a)) (not (fresh$ (select (select " + h.S + " r!a) i!a)))) :pattern ((select (select " + h.S + " r!a) i!a)))))"
	}
}

func (x *Exec) structNotFresh(st *State, t types.Type, v smt.T) {
	u := t.Underlying().(*types.Struct)
	for i := 0; i < u.NumFields(); i++ {
		ft := u.Field(i).Type()
		if isTypeParam(ft) {
			continue
		}
		switch ft.Underlying().(type) {
		case *types.Pointer, *types.Interface, *types.Map, *types.Chan, *types.Signature:
			st.assume(x.notFresh(x.structField(t, u, i, v)))
		case *types.Slice:
			st.assume(x.notFresh(sArr(x.structField(t, u, i, v))))
		}
	}
}

// zeroArray is an array that holds zero everywhere. ((as const ...)) needs a value argument (cvc5 rejects uninterpreted
// constants there), so for other element sorts a named array with a defining axiom is used.
func (x *Exec) zeroArray(srt string, zero smt.T) smt.T {
	switch zero.S {
	case "0", "false", "true":
		return smt.Raw("((as const "+srt+") "+zero.S+")", srt)
	}
	if strings.HasPrefix(zero.S, "(mkslice 0 0 0 0)") {
		return smt.Raw("((as const "+srt+") "+zero.S+")", srt)
	}
	name := "zarr$" + sortTag(srt) + "$" + fmt.Sprintf("%x", hashStr(zero.S))
	a := x.ctx.Const(name, srt)
	x.axioms["zarr:"+name] = "(assert (forall ((i!z Int)) (! (= (select " + a.S + " i!z) " + zero.S + ") :pattern ((select " + a.S + " i!z)))))"
	return a
}
