package sym

import (
	"regexp"
	"strings"

	"golang.org/x/tools/go/ssa"

	"govc/internal/gcl"
	"govc/internal/load"
	"govc/internal/smt"
)

// NewLemma builds the obligations of a pure lemma: assumes ==> each show.
func NewLemma(p *load.Program, l *gcl.Lemma) *Exec {
	x := New(p, nil, &gcl.Contract{Kind: "lemma", Name: l.Name, Pkg: l.Pkg, Props: l.Props}, Options{})
	x.lemma = l
	return x
}

func (x *Exec) RunLemma() {
	defer func() {
		if r := recover(); r != nil {
			x.fatal("internal error in lemma %s: %v", x.lemma.Name, r)
		}
	}()
	l := x.lemma
	st := &State{cells: map[*ssa.Alloc]smt.T{}, heaps: map[string]smt.T{}}
	x.entry = st
	env := map[string]binding{}
	for _, v := range l.Vars {
		srt := x.specSort(v[1])
		env[v[0]] = binding{x.ctx.Const("v$"+v[0], srt), x.specGoType(v[1])}
	}
	x.loadAxioms()
	for _, a := range l.Assumes {
		t, err := x.evalExpr(a.E, &evalCtx{st: st, old: st, env: env, pkg: l.Pkg})
		if err != nil {
			x.fatal("lemma %s: assume %q: %v", l.Name, a.Src, err)
			continue
		}
		st.assume(t)
	}
	if !l.MustFail {
		x.emit(&Obligation{Kind: "cover", Label: "premises-satisfiable", Facts: st.facts, Goal: smt.False, Cover: true, Source: "premises of lemma " + l.Name + " are jointly satisfiable"}, st)
	}
	for i, s := range l.Shows {
		t, err := x.evalExpr(s.E, &evalCtx{st: st, old: st, env: env, pkg: l.Pkg})
		if err != nil {
			x.fatal("lemma %s: show %q: %v", l.Name, s.Src, err)
			continue
		}
		label := s.Label
		if label == "" {
			label = "show" + itoa(i)
		}
		if l.MustFail {
			// sanity lemma: premises AND negated goal must be satisfiable (the statement is refutable)
			x.emit(&Obligation{Kind: "refutable", Label: label, Facts: append(append([]smt.T(nil), st.facts...), smt.Not(t)), Goal: smt.False, Cover: true, Source: "must be refutable: " + s.Src}, st)
		} else {
			x.emit(&Obligation{Kind: "lemma", Label: label, Facts: st.facts, Goal: t, Source: s.Src}, st)
		}
	}
}

func itoa(i int) string {
	if i == 0 {
		return "0"
	}
	s := ""
	for i > 0 {
		s = string(rune('0'+i%10)) + s
		i /= 10
	}
	return s
}

// loadAxioms evaluates the file-level axioms (assumptions about spec functions) once per executor.
func (x *Exec) loadAxioms() {
	if x.axiomsLoaded {
		return
	}
	x.axiomsLoaded = true
	st := &State{cells: map[*ssa.Alloc]smt.T{}, heaps: map[string]smt.T{}, gen: -2}
	for _, a := range x.P.Axioms {
		t, err := x.evalExpr(a.E, &evalCtx{st: st, old: st, env: map[string]binding{}, pkg: ""})
		if err != nil {
			x.fatal("axiom %q: %v", a.Src, err)
			continue
		}
		x.userAxioms = append(x.userAxioms, t)
	}
}

var specRe = regexp.MustCompile(`spec\$[A-Za-z0-9_]+`)

// relevantAxioms selects the user axioms that talk about spec functions occurring in text (transitively).
func (x *Exec) relevantAxioms(text string) []smt.T {
	used := map[string]bool{}
	for _, m := range specRe.FindAllString(text, -1) {
		used[m] = true
	}
	picked := make([]bool, len(x.userAxioms))
	var out []smt.T
	for changed := true; changed; {
		changed = false
		for i, a := range x.userAxioms {
			if picked[i] {
				continue
			}
			ms := specRe.FindAllString(a.S, -1)
			hit := false
			for _, m := range ms {
				if used[m] {
					hit = true
				}
			}
			if hit {
				picked[i] = true
				changed = true
				out = append(out, a)
				for _, m := range ms {
					used[m] = true
				}
			}
		}
	}
	return out
}

var _ = strings.Join
