package sym

import (
	"go/types"

	"golang.org/x/tools/go/ssa"

	"govc/internal/smt"
)

// ---------- maps
//
// A map value is a reference; what it holds lives in two heaps per (key type, element type): MH$K$V[m][k] says whether k
// is present, MV$K$V[m][k] is the stored element. Keys of basic, pointer, map, chan type are modelled (equality is
// equality of the SMT value); interface keys, aggregate keys and aggregate elements stay opaque. len(m) is an
// uninterpreted function of the presence row. Iteration (range) stays opaque.

func (x *Exec) mapHeaps(t types.Type) (vn, vs, hn, hs string, ok bool) {
	mt, isM := t.Underlying().(*types.Map)
	if !isM || isAggregate(mt.Elem()) || isAggregate(mt.Key()) || isTypeParam(mt.Key()) || isTypeParam(mt.Elem()) {
		return
	}
	switch mt.Key().Underlying().(type) {
	case *types.Interface, *types.Slice, *types.Signature:
		return
	}
	ks, es := x.sortOf(mt.Key()), x.sortOf(mt.Elem())
	tag := typeName(mt.Key()) + "$" + typeName(mt.Elem())
	x.noteRefHeap("MV$"+tag, mt.Elem())
	vn, vs = x.regHeap("MV$"+tag, smt.ArraySort(smt.Int, smt.ArraySort(ks, es)))
	hn, hs = x.regHeap("MH$"+tag, smt.ArraySort(smt.Int, smt.ArraySort(ks, smt.Bool)))
	return vn, vs, hn, hs, true
}

func (x *Exec) mapHas(st *State, t types.Type, m, k smt.T) (smt.T, bool) {
	_, _, hn, hs, ok := x.mapHeaps(t)
	if !ok {
		return smt.T{}, false
	}
	return smt.Select(smt.Select(x.heap(st, hn, hs), m), k), true
}

func (x *Exec) mapGet(st *State, t types.Type, m, k smt.T) (smt.T, bool) {
	vn, vs, _, _, ok := x.mapHeaps(t)
	if !ok {
		return smt.T{}, false
	}
	return smt.Select(smt.Select(x.heap(st, vn, vs), m), k), true
}

func (x *Exec) mapLen(st *State, t types.Type, m smt.T) (smt.T, bool) {
	_, _, hn, hs, ok := x.mapHeaps(t)
	if !ok {
		return smt.T{}, false
	}
	row := elemSortOf(hs)
	f := x.ctx.Fun("mlen$"+sortTag(row), []string{row}, smt.Int)
	if _, done := x.axioms["ax:"+f]; !done {
		x.axioms["ax:"+f] = "(assert (forall ((r!m " + row + ")) (! (<= 0 (" + f + " r!m)) :pattern ((" + f + " r!m)))))\n" +
			"(assert (= (" + f + " ((as const " + row + ") false)) 0))"
	}
	return smt.App(smt.Int, f, smt.Select(x.heap(st, hn, hs), m)), true
}

func (x *Exec) doLookup(fr *frame, st *State, in *ssa.Lookup) bool {
	mt, isM := in.X.Type().Underlying().(*types.Map)
	if !isM {
		return false
	}
	m, k := x.val(fr, st, in.X), x.val(fr, st, in.Index)
	has, ok := x.mapHas(st, in.X.Type(), m, k)
	if !ok {
		return false
	}
	raw, _ := x.mapGet(st, in.X.Type(), m, k)
	// a nil map holds nothing
	has = smt.And(smt.Not(smt.Eq(m, smt.IntLit(0))), has)
	v := smt.Ite(has, raw, x.zero(mt.Elem()))
	if in.CommaOk {
		fr.tuples[in] = []smt.T{v, has}
	} else {
		fr.regs[in] = v
	}
	return true
}

func (x *Exec) doMapUpdate(fr *frame, st *State, in *ssa.MapUpdate) bool {
	vn, vs, hn, hs, ok := x.mapHeaps(in.Map.Type())
	if !ok {
		return false
	}
	m, k, v := x.val(fr, st, in.Map), x.val(fr, st, in.Key), x.val(fr, st, in.Value)
	x.safety(st, "nopanic", "nil-map-write", smt.Not(smt.Eq(m, smt.IntLit(0))), in)
	hv := x.heap(st, vn, vs)
	st.heaps[vn] = smt.Store(hv, m, smt.Store(smt.Select(hv, m), k, v))
	hh := x.heap(st, hn, hs)
	st.heaps[hn] = smt.Store(hh, m, smt.Store(smt.Select(hh, m), k, smt.True))
	return true
}

func (x *Exec) doMakeMap(fr *frame, st *State, in *ssa.MakeMap) {
	ref := x.freshRef(st, "map")
	fr.regs[in] = ref
	_, _, hn, hs, ok := x.mapHeaps(in.Type())
	if !ok {
		return
	}
	row := elemSortOf(hs)
	st.assume(smt.Eq(smt.Select(x.heap(st, hn, hs), ref), smt.Raw("((as const "+row+") false)", row)))
}

func (x *Exec) doMapDelete(st *State, t types.Type, m, k smt.T) bool {
	_, _, hn, hs, ok := x.mapHeaps(t)
	if !ok {
		return false
	}
	hh := x.heap(st, hn, hs)
	st.heaps[hn] = smt.Ite(smt.Eq(m, smt.IntLit(0)), hh, smt.Store(hh, m, smt.Store(smt.Select(hh, m), k, smt.False)))
	return true
}
