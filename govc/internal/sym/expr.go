package sym

import (
	"govc/internal/load"
	"fmt"
	"go/constant"
	"go/types"
	"strconv"
	"strings"

	"golang.org/x/tools/go/ssa"

	"govc/internal/gcl"
	"govc/internal/smt"
)

type evalCtx struct {
	st            *State             // state in which heaps / cells are read
	old           *State             // state for old(...)
	env           map[string]binding // names bound by the caller (callee-contract application) or quantifiers
	fr            *frame             // frame whose locals are visible (own-contract evaluation)
	pkg           string             // package path the contract text belongs to (for unqualified globals)
	inOld         bool
	paramsCurrent bool     // loop invariants and call clauses: a parameter name means its current value, old(p) its entry value
	side          *[]smt.T // type invariants (ranges, slice well-formedness) of heap values read by the expression
}

// sideFacts records the type invariants of a value read from the heap, unless it depends on a bound variable.
func (x *Exec) sideFacts(c *evalCtx, v smt.T, t types.Type) {
	if c.side == nil || t == nil || strings.Contains(v.S, "!b") || isTypeParam(t) {
		return
	}
	switch t.Underlying().(type) {
	case *types.Slice, *types.Basic, *types.Pointer, *types.Interface:
		*c.side = append(*c.side, x.typeFacts(v, t)...)
	}
}

type typed struct {
	t    smt.T
	typ  types.Type              // may be nil for spec-level values
	pend func(sort string) smt.T // result-polymorphic spec application: resolved by the sort of the other comparison operand
}

func constantString(c *ssa.Const) string { return constant.StringVal(c.Value) }

// evalClause evaluates a clause of the function under verification: parameters (entry values), results, locals.
func (x *Exec) evalClause(e gcl.Expr, st, old *State, fr *frame, results []smt.T) (smt.T, error) {
	return x.evalClauseExtra(e, st, old, fr, results, nil)
}

func (x *Exec) evalClauseExtra(e gcl.Expr, st, old *State, fr *frame, results []smt.T, extra map[string]binding) (smt.T, error) {
	env := map[string]binding{}
	for n, b := range x.params {
		env[n] = b
	}
	if x.fn != nil {
		if recv := x.fn.Signature.Recv(); recv != nil && len(x.fn.Params) > 0 {
			env["this"] = x.params[x.fn.Params[0].Name()]
		}
	}
	if x.fn == nil {
		return x.evalExpr(e, &evalCtx{st: st, old: old, env: env, pkg: x.contract.Pkg})
	}
	res := x.fn.Signature.Results()
	for i := 0; i < res.Len() && i < len(results); i++ {
		env[fmt.Sprintf("r%d", i)] = binding{results[i], res.At(i).Type()}
		if n := res.At(i).Name(); n != "" && n != "_" {
			env[n] = binding{results[i], res.At(i).Type()}
		}
	}
	for n, r := range extra {
		env[n] = r
	}
	pkg := ""
	if x.contract != nil {
		pkg = x.contract.Pkg
	}
	var side []smt.T
	t, err := x.evalExpr(e, &evalCtx{st: st, old: old, env: env, fr: fr, pkg: pkg, side: &side, paramsCurrent: results == nil})
	st.assume(dedup(side)...)
	return t, err
}

func (x *Exec) evalExpr(e gcl.Expr, c *evalCtx) (smt.T, error) {
	v, err := x.evalTyped(e, c)
	if err == nil && v.pend != nil {
		return v.t, fmt.Errorf("the sort of %s cannot be determined from its context", e)
	}
	return v.t, err
}

func (x *Exec) curState(c *evalCtx) *State {
	if c.inOld {
		return c.old
	}
	return c.st
}

func parseIntLit(s string) (string, error) {
	if strings.HasPrefix(s, "0x") || strings.HasPrefix(s, "0X") {
		v, err := strconv.ParseUint(s[2:], 16, 64)
		if err != nil {
			return "", err
		}
		return strconv.FormatUint(v, 10), nil
	}
	for _, ch := range s {
		if ch < '0' || ch > '9' {
			return "", fmt.Errorf("bad integer %q", s)
		}
	}
	return s, nil
}

func (x *Exec) evalTyped(e gcl.Expr, c *evalCtx) (typed, error) {
	switch e := e.(type) {
	case gcl.IntLit:
		d, err := parseIntLit(e.Val)
		if err != nil {
			return typed{}, err
		}
		return tv(smt.IntLitS(d), types.Typ[types.Int]), nil
	case gcl.BoolLit:
		return tv(smt.BoolLit(e.Val), types.Typ[types.Bool]), nil
	case gcl.NilLit:
		return tv(smt.IntLit(0), types.Typ[types.UntypedNil]), nil
	case gcl.Ident:
		return x.evalIdent(e.Name, c)
	case gcl.Old:
		c2 := *c
		c2.inOld = true
		return x.evalTyped(e.X, &c2)
	case gcl.Unary:
		v, err := x.evalTyped(e.X, c)
		if err != nil {
			return typed{}, err
		}
		if e.Op == "!" {
			return tv(smt.Not(v.t), types.Typ[types.Bool]), nil
		}
		return tv(smt.App(smt.Int, "-", v.t), v.typ), nil
	case gcl.Cond:
		cc, err := x.evalTyped(e.C, c)
		if err != nil {
			return typed{}, err
		}
		a, err := x.evalTyped(e.A, c)
		if err != nil {
			return typed{}, err
		}
		b, err := x.evalTyped(e.B, c)
		if err != nil {
			return typed{}, err
		}
		a, b = x.unifyNil(a, b)
		return tv(smt.Ite(cc.t, a.t, b.t), a.typ), nil
	case gcl.Binary:
		return x.evalBinary(e, c)
	case gcl.Quant:
		c2 := *c
		c2.env = map[string]binding{}
		for k, v := range c.env {
			c2.env[k] = v
		}
		var decl []string
		var decls [][2]string
		x.qdepth++
		for i, v := range e.Vars {
			name := fmt.Sprintf("%s!b%d", v, x.qdepth)
			srt, gt := smt.Int, types.Type(types.Typ[types.Int])
			if i < len(e.Sorts) && e.Sorts[i] != "" {
				srt = x.specSort(e.Sorts[i])
				gt = x.specParamType(e.Sorts[i], c.pkg)
			}
			c2.env[v] = binding{smt.Raw(name, srt), gt}
			decl = append(decl, "("+name+" "+srt+")")
			decls = append(decls, [2]string{name, srt})
		}
		body, err := x.evalTyped(e.Body, &c2)
		x.qdepth--
		if err != nil {
			return typed{}, err
		}
		if e.Forall {
			return tv(smt.Forall(decls, body.t), types.Typ[types.Bool]), nil
		}
		return tv(smt.Raw("(exists ("+strings.Join(decl, " ")+") "+body.t.S+")", smt.Bool), types.Typ[types.Bool]), nil
	case gcl.Field:
		// package-qualified global (io.EOF, pq.Done)?
		if id, ok := e.X.(gcl.Ident); ok {
			if _, bound := c.env[id.Name]; !bound && x.localNamed(id.Name, c) == nil {
				if g := x.lookupQualifiedGlobal(id.Name, e.Name, c); g != nil {
					return x.globalValue(g, c)
				}
			}
		}
		base, err := x.evalTyped(e.X, c)
		if err != nil {
			return typed{}, err
		}
		return x.evalField(base, e.Name, c)
	case gcl.Index:
		base, err := x.evalTyped(e.X, c)
		if err != nil {
			return typed{}, err
		}
		idx, err := x.evalTyped(e.I, c)
		if err != nil {
			return typed{}, err
		}
		if base.typ == nil {
			if strings.HasPrefix(base.t.Sort, "(Array ") {
				return tv(smt.Select(base.t, idx.t), nil), nil
			}
			return typed{}, fmt.Errorf("cannot index %s", e.X)
		}
		bt := base.typ
		if p, ok := bt.Underlying().(*types.Pointer); ok {
			if _, isArr := p.Elem().Underlying().(*types.Array); isArr {
				bt = p.Elem()
				// base.t is the reference of the array aggregate
				arr := bt.Underlying().(*types.Array)
				if isAggregate(arr.Elem()) {
					return tv(x.elemRef(arr.Elem(), base.t, idx.t), types.NewPointer(arr.Elem())), nil
				}
				hn, hs := x.elemHeap(arr.Elem())
				h := x.heap(x.curState(c), hn, hs)
				return tv(smt.Select(smt.Select(h, base.t), idx.t), arr.Elem()), nil
			}
		}
		switch t := bt.Underlying().(type) {
		case *types.Slice:
			if isAggregate(t.Elem()) {
				return tv(x.elemRef(t.Elem(), sArr(base.t), x.at(sOff(base.t), idx.t)), types.NewPointer(t.Elem())), nil
			}
			hn, hs := x.elemHeap(t.Elem())
			h := x.heap(x.curState(c), hn, hs)
			v := smt.Select(smt.Select(h, sArr(base.t)), x.at(sOff(base.t), idx.t))
			x.sideFacts(c, v, t.Elem())
			return tv(v, t.Elem()), nil
		case *types.Array:
			return tv(smt.Select(base.t, idx.t), t.Elem()), nil
		}
		return typed{}, fmt.Errorf("cannot index %s", e.X)
	case gcl.Call:
		return x.evalCall(e, c)
	}
	return typed{}, fmt.Errorf("unsupported expression %T", e)
}

func (x *Exec) unifyNil(a, b typed) (typed, typed) {
	isNil := func(t typed) bool {
		bt, ok := t.typ.(*types.Basic)
		return ok && bt.Kind() == types.UntypedNil
	}
	if a.typ != nil && b.typ != nil {
		if _, ok := a.typ.Underlying().(*types.Slice); ok && isNil(b) {
			return a, tv(nilSlice, a.typ)
		}
		if _, ok := b.typ.Underlying().(*types.Slice); ok && isNil(a) {
			return tv(nilSlice, b.typ), b
		}
	}
	return a, b
}

func (x *Exec) localNamed(name string, c *evalCtx) *ssa.Alloc {
	if c.fr == nil {
		return nil
	}
	var best *ssa.Alloc
	// a named result of the function under verification wins over shadowing locals of the same name
	if x.fn != nil {
		res := x.fn.Signature.Results()
		for i := 0; i < res.Len(); i++ {
			if res.At(i).Name() == name {
				var first *ssa.Alloc
				for _, b := range x.fn.Blocks {
					for _, in := range b.Instrs {
						if a, ok := in.(*ssa.Alloc); ok && a.Comment == name && (first == nil || a.Pos() < first.Pos()) {
							first = a
						}
					}
				}
				if first != nil {
					return first
				}
			}
		}
	}
	for f := c.fr; f != nil; f = f.parent {
		for _, b := range f.fn.Blocks {
			for _, in := range b.Instrs {
				if a, ok := in.(*ssa.Alloc); ok && a.Comment == name {
					if _, live := c.st.cells[a]; live || !x.isRegCell(a) {
						if best == nil || a.Pos() > best.Pos() {
							best = a
						}
					}
				}
			}
		}
		if best != nil {
			return best
		}
	}
	return nil
}

// rangeIndexHere finds the hidden index variable of the innermost range loop that contains the block being executed.
func (x *Exec) rangeIndexHere(fr *frame) *ssa.Alloc {
	if fr == nil || fr.cur == nil {
		return nil
	}
	var best *load.LoopInfo
	for _, li := range x.loopsOf(fr) {
		if li.Header != fr.cur && !li.Body[fr.cur] {
			continue
		}
		if best == nil || len(li.Body) < len(best.Body) {
			// only range loops have a rangeindex store in their header
			for _, in := range li.Header.Instrs {
				if st, ok := in.(*ssa.Store); ok {
					if a, ok := st.Addr.(*ssa.Alloc); ok && a.Comment == "rangeindex" {
						best = li
					}
				}
			}
		}
	}
	if best == nil {
		return nil
	}
	for _, in := range best.Header.Instrs {
		if st, ok := in.(*ssa.Store); ok {
			if a, ok := st.Addr.(*ssa.Alloc); ok && a.Comment == "rangeindex" {
				return a
			}
		}
	}
	return nil
}

func (x *Exec) evalIdent(name string, c *evalCtx) (typed, error) {
	if c.paramsCurrent && !c.inOld && c.fr != nil {
		if _, isParam := x.params[name]; isParam {
			for _, b := range x.fn.Blocks {
				for _, in := range b.Instrs {
					if a, ok := in.(*ssa.Alloc); ok && a.Comment == name && x.isRegCell(a) {
						if v, live := c.st.cells[a]; live {
							return tv(v, deref(a.Type())), nil
						}
					}
				}
				break // parameter cells are allocated in the entry block
			}
		}
	}
	if b, ok := c.env[name]; ok {
		return tv(b.t, b.typ), nil
	}
	if name == "ranged" && c.fr != nil { // the slice the innermost enclosing range loop runs over
		if a := x.rangeIndexHere(c.fr); a != nil {
			// the body indexes the ranged slice with the hidden index: t = &s[rangeindex] / s[rangeindex]
			for _, b := range c.fr.fn.Blocks {
				for _, in := range b.Instrs {
					var xs, idx ssa.Value
					switch v := in.(type) {
					case *ssa.IndexAddr:
						xs, idx = v.X, v.Index
					case *ssa.Index:
						xs, idx = v.X, v.Index
					}
					if xs == nil {
						continue
					}
					if u, ok := idx.(*ssa.UnOp); ok && u.X == ssa.Value(a) {
						if _, isSl := xs.Type().Underlying().(*types.Slice); isSl {
							for f := c.fr; f != nil; f = f.parent {
								if t, ok := f.regs[xs]; ok {
									return tv(t, xs.Type()), nil
								}
							}
						}
					}
				}
			}
		}
		return typed{}, fmt.Errorf("ranged: the clause is not evaluated inside a range loop over a slice")
	}
	if name == "iter" && c.fr != nil { // range loop iteration counter = rangeindex + 1 of the innermost range loop around here
		if a := x.rangeIndexHere(c.fr); a != nil {
			if v, ok := c.st.cells[a]; ok {
				return tv(smt.Add(v, smt.IntLit(1)), types.Typ[types.Int]), nil
			}
		}
		return typed{}, fmt.Errorf("iter: the clause is not evaluated inside a range loop")
	}
	if a := x.localNamed(name, c); a != nil {
		st := c.st // locals always have their current value, old() only rewinds heaps and parameters
		if v, ok := st.cells[a]; ok {
			return tv(v, deref(a.Type())), nil
		}
		if !x.isRegCell(a) {
			// address-taken local: its value lives in a heap at the reference bound to the Alloc
			for f := c.fr; f != nil; f = f.parent {
				if ref, ok := f.regs[a]; ok {
					et := deref(a.Type())
					if isAggregate(et) {
						return tv(ref, types.NewPointer(et)), nil
					}
					hn, hs := x.ptrHeap(et)
					return tv(smt.Select(x.heap(x.curState(c), hn, hs), ref), et), nil
				}
			}
		}
	}
	// a local of the function that was not (yet) allocated on this path: its value is irrelevant there
	if c.fr != nil {
		for f := c.fr; f != nil; f = f.parent {
			for _, b := range f.fn.Blocks {
				for _, in := range b.Instrs {
					if a, ok := in.(*ssa.Alloc); ok && a.Comment == name && x.isRegCell(a) {
						v := x.ctx.Fresh("dead$"+name, x.sortOf(deref(a.Type())))
						return tv(v, deref(a.Type())), nil
					}
				}
			}
		}
	}
	// a captured variable of a function literal that is verified on its own
	if x.fn != nil && c.fr != nil {
		root := c.fr
		for root.parent != nil {
			root = root.parent
		}
		for _, fv := range x.fn.FreeVars {
			if fv.Name() == name {
				if ref, ok := root.regs[fv]; ok {
					et := deref(fv.Type())
					if isAggregate(et) {
						return tv(ref, types.NewPointer(et)), nil
					}
					hn, hs := x.ptrHeap(et)
					return tv(smt.Select(x.heap(x.curState(c), hn, hs), ref), et), nil
				}
			}
		}
	}
	switch name {
	case "bempty":
		x.bytesVocab()
		return tv(smt.Raw("bempty", BytesSort), nil), nil
	}
	// package-level constants and variables of the contract's package
	if o := x.lookupInPkg(c.pkg, name); o != nil {
		return x.globalValue(o, c)
	}
	if x.fn != nil && x.fn.Pkg != nil {
		if o := x.fn.Pkg.Pkg.Scope().Lookup(name); o != nil {
			switch o.(type) {
			case *types.Const, *types.Var:
				return x.globalValue(o, c)
			}
		}
	}
	return typed{}, fmt.Errorf("unknown identifier %q", name)
}

func (x *Exec) lookupInPkg(path, name string) types.Object {
	if path == "" {
		return nil
	}
	for _, p := range x.P.Prog.AllPackages() {
		if p.Pkg.Path() == path {
			switch o := p.Pkg.Scope().Lookup(name).(type) {
			case *types.Const, *types.Var:
				return o
			}
			return nil
		}
	}
	return nil
}

func (x *Exec) lookupQualifiedGlobal(pkgName, name string, c *evalCtx) types.Object {
	pick := func(o types.Object) types.Object {
		switch o.(type) {
		case *types.Const, *types.Var:
			return o
		}
		return nil
	}
	for _, p := range x.P.Prog.AllPackages() {
		if p.Pkg.Path() == c.pkg || (x.fn != nil && x.fn.Pkg != nil && p.Pkg == x.fn.Pkg.Pkg) {
			for _, imp := range p.Pkg.Imports() {
				if imp.Name() == pkgName {
					if o := imp.Scope().Lookup(name); o != nil {
						return pick(o)
					}
				}
			}
		}
	}
	// any loaded package by its name (first in path order for determinism)
	var best types.Object
	bestPath := ""
	for _, p := range x.P.Prog.AllPackages() {
		if p.Pkg.Name() == pkgName {
			if o := p.Pkg.Scope().Lookup(name); o != nil && pick(o) != nil {
				if best == nil || p.Pkg.Path() < bestPath {
					best, bestPath = o, p.Pkg.Path()
				}
			}
		}
	}
	return best
}

func (x *Exec) globalValue(o types.Object, c *evalCtx) (typed, error) {
	switch o := o.(type) {
	case *types.Const:
		switch o.Val().Kind() {
		case constant.Int:
			return tv(smt.IntLitS(o.Val().ExactString()), o.Type()), nil
		case constant.Bool:
			return tv(smt.BoolLit(constant.BoolVal(o.Val())), o.Type()), nil
		case constant.String:
			return tv(x.strConst(constant.StringVal(o.Val())), o.Type()), nil
		}
	case *types.Var:
		if isErrorType(o.Type()) {
			return tv(x.errGlobal(o.Pkg().Path()+"."+o.Name()), o.Type()), nil
		}
		if isAggregate(o.Type()) {
			return tv(x.ctx.Const("&g$"+o.Pkg().Path()+"."+o.Name(), smt.Int), types.NewPointer(o.Type())), nil
		}
		hn := "G$" + o.Pkg().Path() + "." + o.Name()
		return tv(x.heap(x.curState(c), hn, x.sortOf(o.Type())), o.Type()), nil
	}
	return typed{}, fmt.Errorf("unsupported global %s", o.Name())
}

func (x *Exec) evalField(base typed, name string, c *evalCtx) (typed, error) {
	if base.typ == nil {
		return typed{}, fmt.Errorf("field %s of untyped value", name)
	}
	t := base.typ
	isPtr := false
	if p, ok := t.Underlying().(*types.Pointer); ok {
		t, isPtr = p.Elem(), true
	}
	stt, ok := t.Underlying().(*types.Struct)
	if !ok {
		return typed{}, fmt.Errorf("field %s of non-struct %s", name, t)
	}
	for i := 0; i < stt.NumFields(); i++ {
		if stt.Field(i).Name() == name {
			ft := stt.Field(i).Type()
			if isPtr {
				if isAggregate(ft) {
					return tv(x.interiorRef(t, i, base.t), types.NewPointer(ft)), nil
				}
				hn, hs := x.fieldHeap(t, i)
				h := x.heap(x.curState(c), hn, hs)
				v := smt.Select(h, base.t)
				x.sideFacts(c, v, ft)
				return tv(v, ft), nil
			}
			return tv(x.structField(t, stt, i, base.t), ft), nil
		}
	}
	// promoted fields through embedded structs
	for i := 0; i < stt.NumFields(); i++ {
		if stt.Field(i).Embedded() {
			var inner typed
			ft := stt.Field(i).Type()
			if isPtr {
				if isAggregate(ft) {
					inner = tv(x.interiorRef(t, i, base.t), types.NewPointer(ft))
				} else {
					hn, hs := x.fieldHeap(t, i)
					inner = tv(smt.Select(x.heap(x.curState(c), hn, hs), base.t), ft)
				}
			} else {
				inner = tv(x.structField(t, stt, i, base.t), ft)
			}
			if r, err := x.evalField(inner, name, c); err == nil {
				return r, nil
			}
		}
	}
	return typed{}, fmt.Errorf("no field %s in %s", name, t)
}

func isSliceT(t types.Type) bool {
	if t == nil {
		return false
	}
	_, ok := t.Underlying().(*types.Slice)
	return ok
}

func (x *Exec) evalBinary(e gcl.Binary, c *evalCtx) (typed, error) {
	l, err := x.evalTyped(e.L, c)
	if err != nil {
		return typed{}, err
	}
	r, err := x.evalTyped(e.R, c)
	if err != nil {
		return typed{}, err
	}
	b := types.Typ[types.Bool]
	if l.pend != nil && r.pend == nil {
		l = tv(l.pend(r.t.Sort), r.typ)
	} else if r.pend != nil && l.pend == nil {
		r = tv(r.pend(l.t.Sort), l.typ)
	} else if l.pend != nil && r.pend != nil {
		return typed{}, fmt.Errorf("cannot determine the sort of %s", e)
	}
	switch e.Op {
	case "&&":
		return tv(smt.And(l.t, r.t), b), nil
	case "||":
		return tv(smt.Or(l.t, r.t), b), nil
	case "==>":
		return tv(smt.Implies(l.t, r.t), b), nil
	case "<==>":
		return tv(smt.Eq(l.t, r.t), b), nil
	case "==", "!=", "===", "!==":
		var eq smt.T
		switch {
		case isSliceT(l.typ) && !isSliceT(r.typ) && r.t.Sort != SliceSort: // s == nil
			eq = smt.Eq(sArr(l.t), smt.IntLit(0))
		case isSliceT(r.typ) && !isSliceT(l.typ) && l.t.Sort != SliceSort:
			eq = smt.Eq(sArr(r.t), smt.IntLit(0))
		default:
			if l.t.Sort != r.t.Sort && l.t.Sort != "" && r.t.Sort != "" {
				return typed{}, fmt.Errorf("comparison of %s (%s) and %s (%s)", e.L, l.t.Sort, e.R, r.t.Sort)
			}
			eq = smt.Eq(l.t, r.t)
		}
		if strings.HasPrefix(e.Op, "!") {
			eq = smt.Not(eq)
		}
		return tv(eq, b), nil
	case "<", "<=", ">", ">=":
		if l.t.Sort != smt.Int || r.t.Sort != smt.Int {
			if l.typ != nil && isString(l.typ) {
				switch e.Op {
				case "<":
					return tv(x.less(l.t, r.t, l.typ, "<"), b), nil
				case "<=":
					return tv(x.less(l.t, r.t, l.typ, "<="), b), nil
				case ">":
					return tv(x.less(r.t, l.t, l.typ, "<"), b), nil
				case ">=":
					return tv(x.less(r.t, l.t, l.typ, "<="), b), nil
				}
			}
			return typed{}, fmt.Errorf("ordering comparison of non-integers %s, %s", e.L, e.R)
		}
		return tv(smt.App(smt.Bool, e.Op, l.t, r.t), b), nil
	case "+", "-", "*":
		return tv(smt.App(smt.Int, e.Op, l.t, r.t), l.typ), nil
	case "/":
		return tv(smt.App(smt.Int, "div", l.t, r.t), l.typ), nil
	case "%":
		return tv(smt.App(smt.Int, "mod", l.t, r.t), l.typ), nil
	}
	return typed{}, fmt.Errorf("unsupported operator %s", e.Op)
}

func (x *Exec) evalCall(e gcl.Call, c *evalCtx) (typed, error) {
	if e.Fun == "called" || e.Fun == "callres" || e.Fun == "callarg" {
		return x.evalCallRef(e, c)
	}
	if e.Fun == "atloop" && len(e.Args) == 1 { // atloop(e): the value of e when the innermost enclosing loop was entered
		var best *load.LoopInfo
		if c.fr != nil && c.fr.cur != nil {
			for _, li := range x.loopsOf(c.fr) {
				if li.Header != c.fr.cur && !li.Body[c.fr.cur] {
					continue
				}
				if best == nil || len(li.Body) < len(best.Body) {
					best = li
				}
			}
		}
		if best == nil || c.st.loopEntry == nil || c.st.loopEntry[best.Header] == nil {
			return typed{}, fmt.Errorf("atloop: the clause is not evaluated inside a loop")
		}
		c2 := *c
		c2.st = c.st.loopEntry[best.Header]
		c2.inOld = false
		return x.evalTyped(e.Args[0], &c2)
	}
	if e.Fun == "asType" && len(e.Args) == 2 { // asType(TypeName, e): gives a sort-polymorphic spec value a Go type
		gt := x.specParamType(e.Args[0].String(), c.pkg)
		if gt == nil {
			return typed{}, fmt.Errorf("asType: unknown type %s", e.Args[0])
		}
		v, err := x.evalTyped(e.Args[1], c)
		if err != nil {
			return typed{}, err
		}
		if v.pend != nil {
			return tv(v.pend(x.sortOf(gt)), gt), nil
		}
		return tv(v.t, gt), nil
	}
	if e.Fun == "fn" && len(e.Args) == 1 { // fn(pkg.Name) / fn(Name): the function value constant
		name := e.Args[0].String()
		pkgName, fname := "", name
		if i := strings.LastIndex(name, "."); i >= 0 {
			pkgName, fname = name[:i], name[i+1:]
		}
		for _, p := range x.P.Prog.AllPackages() {
			if (pkgName == "" && p.Pkg.Path() == c.pkg) || (pkgName != "" && p.Pkg.Name() == pkgName) {
				if f := p.Func(fname); f != nil {
					return tv(x.ctx.Const("fn$"+f.String(), smt.Int), nil), nil
				}
			}
		}
		return typed{}, fmt.Errorf("fn(%s): no such function", name)
	}
	var args []typed
	for _, a := range e.Args {
		v, err := x.evalTyped(a, c)
		if err != nil {
			return typed{}, err
		}
		args = append(args, v)
	}
	intT := types.Typ[types.Int]
	switch e.Fun {
	case "len":
		if len(args) == 1 {
			if args[0].typ != nil {
				if _, ok := args[0].typ.Underlying().(*types.Slice); ok {
					return tv(sLen(args[0].t), intT), nil
				}
				if arr, ok := args[0].typ.Underlying().(*types.Array); ok {
					return tv(smt.IntLit(arr.Len()), intT), nil
				}
				if isString(args[0].typ) {
					return tv(x.slen(args[0].t), intT), nil
				}
			}
			if args[0].t.Sort == SliceSort {
				return tv(sLen(args[0].t), intT), nil
			}
			if args[0].t.Sort == BytesSort {
				x.bytesVocab()
				return tv(smt.App(smt.Int, "blen", args[0].t), intT), nil
			}
		}
		return typed{}, fmt.Errorf("len of %s", e.Args[0])
	case "cap":
		if len(args) == 1 && args[0].typ != nil {
			if _, ok := args[0].typ.Underlying().(*types.Chan); ok {
				f := x.ctx.Fun("chancap$", []string{smt.Int}, smt.Int)
				return tv(smt.App(smt.Int, f, args[0].t), intT), nil
			}
		}
		return tv(sCap(args[0].t), intT), nil
	case "errIs":
		return tv(x.errIs(args[0].t, args[1].t), types.Typ[types.Bool]), nil
	case "max":
		return tv(smt.Ite(smt.Lt(args[0].t, args[1].t), args[1].t, args[0].t), args[0].typ), nil
	case "min":
		return tv(smt.Ite(smt.Lt(args[1].t, args[0].t), args[1].t, args[0].t), args[0].typ), nil
	case "content": // content(s): Bytes value of a byte slice (in the current or old state)
		if len(args) == 1 && args[0].t.Sort == SliceSort {
			return tv(x.content(x.curState(c), args[0].t), nil), nil
		}
		if len(args) == 1 && args[0].typ != nil && isString(args[0].typ) {
			x.bytesVocab()
			f := x.ctx.Fun("bytes$of", []string{x.ctx.Sort(StrSort)}, BytesSort)
			return tv(smt.App(BytesSort, f, args[0].t), nil), nil
		}
		return typed{}, fmt.Errorf("content of non-slice %s", e.Args[0])
	case "val": // val(x): the content of a byte slice, x itself otherwise (for contracts of generic code)
		if len(args) == 1 && args[0].t.Sort == SliceSort && (args[0].typ == nil || isByteSlice(args[0].typ)) {
			return tv(x.content(x.curState(c), args[0].t), nil), nil
		}
		return args[0], nil
	case "blen":
		x.bytesVocab()
		return tv(smt.App(smt.Int, "blen", args[0].t), intT), nil
	case "mhas", "mget", "mlen": // what a map holds: mhas(m, k), mget(m, k) (meaningful where mhas), mlen(m)
		if len(args) >= 1 && args[0].typ != nil {
			if mt, ok := args[0].typ.Underlying().(*types.Map); ok {
				st := x.curState(c)
				switch {
				case e.Fun == "mhas" && len(args) == 2:
					if h, ok := x.mapHas(st, args[0].typ, args[0].t, args[1].t); ok {
						return tv(smt.And(smt.Not(smt.Eq(args[0].t, smt.IntLit(0))), h), types.Typ[types.Bool]), nil
					}
				case e.Fun == "mget" && len(args) == 2:
					if v, ok := x.mapGet(st, args[0].typ, args[0].t, args[1].t); ok {
						x.sideFacts(c, v, mt.Elem())
						return tv(v, mt.Elem()), nil
					}
				case e.Fun == "mlen" && len(args) == 1:
					if v, ok := x.mapLen(st, args[0].typ, args[0].t); ok {
						return tv(smt.Ite(smt.Eq(args[0].t, smt.IntLit(0)), smt.IntLit(0), v), intT), nil
					}
				}
			}
		}
		return typed{}, fmt.Errorf("%s: not a modelled map: %s", e.Fun, e.Args[0])
	case "bcmp":
		x.bytesVocab()
		return tv(x.bcmp(args[0].t, args[1].t), intT), nil
	case "deref": // deref(p): the value a pointer to a non-aggregate points to
		if len(args) == 1 && args[0].typ != nil {
			if pt, ok := args[0].typ.Underlying().(*types.Pointer); ok && !isAggregate(pt.Elem()) {
				hn, hs := x.ptrHeap(pt.Elem())
				v := smt.Select(x.heap(x.curState(c), hn, hs), args[0].t)
				x.sideFacts(c, v, pt.Elem())
				return tv(v, pt.Elem()), nil
			}
		}
		return typed{}, fmt.Errorf("deref of %s", e.Args[0])
	case "isnil":
		if args[0].t.Sort == SliceSort {
			return tv(smt.Eq(sArr(args[0].t), smt.IntLit(0)), types.Typ[types.Bool]), nil
		}
		return tv(smt.Eq(args[0].t, smt.IntLit(0)), types.Typ[types.Bool]), nil
	case "arr": // identity of the backing array of a slice
		return tv(sArr(args[0].t), intT), nil
	case "off":
		return tv(sOff(args[0].t), intT), nil
	case "fresh": // fresh(r): r was allocated during this activation (slices: their backing array)
		r := args[0].t
		if r.Sort == SliceSort {
			r = sArr(r)
		}
		return tv(smt.Not(x.notFresh(r)), types.Typ[types.Bool]), nil
	case "dyntype":
		f := x.ctx.Fun("dyntype", []string{smt.Int}, smt.Int)
		return tv(smt.App(smt.Int, f, args[0].t), intT), nil
	}
	// ghost heaps:  g(obj, k...)
	if g, ok := x.P.Ghosts[e.Fun]; ok {
		n := len(g.Params)
		if n == 0 {
			n = 1
		}
		if len(args) != n {
			return typed{}, fmt.Errorf("ghost %s: wrong number of arguments", e.Fun)
		}
		var sorts []string
		for _, a := range args {
			if a.pend != nil {
				return typed{}, fmt.Errorf("ghost %s: argument without a determined sort", e.Fun)
			}
			sorts = append(sorts, a.t.Sort)
		}
		hn, hs := x.ghostHeap(g, sorts)
		v := x.heap(x.curState(c), hn, hs)
		for _, a := range args {
			v = smt.Select(v, a.t)
		}
		return tv(v, x.specGoType(g.Ret)), nil
	}
	// spec functions
	if sp, ok := x.P.Specs[e.Fun]; ok {
		if len(sp.Params) != len(args) {
			return typed{}, fmt.Errorf("spec %s: wrong number of arguments", e.Fun)
		}
		if sp.Body != nil {
			c2 := *c
			c2.env = map[string]binding{}
			for k, v := range c.env {
				c2.env[k] = v
			}
			for i, p := range sp.Params {
				typ := args[i].typ
				if gt := x.specParamType(p[1], sp.Pkg); gt != nil && (typ == nil || p[1] != "Slice") {
					typ = gt
				}
				c2.env[p[0]] = binding{args[i].t, typ}
			}
			c2.pkg = sp.Pkg
			c2.fr = nil // spec bodies see their parameters, ghost state and globals only
			return x.evalTyped(sp.Body, &c2)
		}
		var sorts []string
		var ts []smt.T
		name := "spec$" + e.Fun
		for i, p := range sp.Params {
			if args[i].pend != nil {
				return typed{}, fmt.Errorf("spec %s: argument %d has no determined sort", e.Fun, i)
			}
			var s string
			if p[1] == "any" {
				s = args[i].t.Sort
				name += "$" + sortTag(s)
			} else {
				s = x.specSort(p[1])
			}
			if args[i].t.Sort != s && args[i].t.Sort != "" {
				return typed{}, fmt.Errorf("spec %s: argument %d has sort %s, want %s", e.Fun, i, args[i].t.Sort, s)
			}
			sorts = append(sorts, s)
			ts = append(ts, args[i].t)
		}
		if sp.Ret == "any" {
			return typed{pend: func(ret string) smt.T {
				f := x.ctx.Fun(name+"$"+sortTag(ret), sorts, ret)
				return smt.App(ret, f, ts...)
			}}, nil
		}
		ret := x.specSort(sp.Ret)
		f := x.ctx.Fun(name, sorts, ret)
		return tv(smt.App(ret, f, ts...), x.specGoType(sp.Ret)), nil
	}
	return typed{}, fmt.Errorf("unknown function %s in contract", e.Fun)
}

// specParamType resolves a Go type written as a spec parameter sort: "*T" or "T" for a named type of the package.
func (x *Exec) specParamType(s, pkg string) types.Type {
	ptr := strings.HasPrefix(s, "*")
	name := strings.TrimPrefix(s, "*")
	if gt := x.specGoType(s); gt != nil {
		return gt
	}
	qual := ""
	if i := strings.LastIndex(name, "."); i > 0 { // pkgname.Type: a type of a package that pkg imports
		qual, name = name[:i], name[i+1:]
	}
	for _, p := range x.P.Prog.AllPackages() {
		if p.Pkg.Path() != pkg {
			continue
		}
		scopes := []*types.Package{p.Pkg}
		if qual != "" {
			scopes = nil
			for _, imp := range p.Pkg.Imports() {
				if imp.Name() == qual {
					scopes = append(scopes, imp)
				}
			}
		}
		for _, sc := range scopes {
			if o, ok := sc.Scope().Lookup(name).(*types.TypeName); ok {
				if ptr {
					return types.NewPointer(o.Type())
				}
				return o.Type()
			}
		}
	}
	return nil
}

func (x *Exec) specSort(s string) string {
	if strings.HasPrefix(s, "*") {
		return smt.Int
	}
	switch s {
	case "Int", "Ref", "Err", "int":
		return smt.Int
	case "Bool", "bool":
		return smt.Bool
	case "Slice":
		x.declSlice()
		return SliceSort
	case "Bytes":
		x.bytesVocab()
		return BytesSort
	case "Str", "string":
		return x.ctx.Sort(StrSort)
	}
	if strings.HasPrefix(s, "TP$") {
		return x.ctx.Sort(s)
	}
	return x.ctx.Sort(s)
}

func (x *Exec) specGoType(s string) types.Type {
	switch s {
	case "Slice":
		return types.NewSlice(types.Typ[types.Uint8])
	case "Int", "int":
		return types.Typ[types.Int]
	case "Bool", "bool":
		return types.Typ[types.Bool]
	case "Str", "string":
		return types.Typ[types.String]
	}
	return nil
}

func sortTag(s string) string {
	return strings.NewReplacer("(", "<", ")", ">", " ", "_", "|", "").Replace(s)
}

func tv(t smt.T, typ types.Type) typed { return typed{t: t, typ: typ} }

// evalCallRef: called(F, n) - the n-th call of F (in source order) was executed on this path;
// callres(F, n, k) - the k-th result of that call (unconstrained if it was not executed).
func (x *Exec) evalCallRef(e gcl.Call, c *evalCtx) (typed, error) {
	if len(e.Args) < 2 {
		return typed{}, fmt.Errorf("%s needs a callee name and an ordinal", e.Fun)
	}
	name := e.Args[0].String()
	ordLit, ok := e.Args[1].(gcl.IntLit)
	if !ok {
		return typed{}, fmt.Errorf("%s: ordinal must be a literal", e.Fun)
	}
	ord, _ := strconv.Atoi(ordLit.Val)
	var instr ssa.CallInstruction
	n := 0
	for _, ci := range x.allCalls() {
		if matchCallee(x.calleeKey(ci.Common()), name) {
			if n == ord {
				instr = ci
				break
			}
			n++
		}
	}
	if instr == nil {
		return typed{}, fmt.Errorf("%s: the function has no call %d of %s", e.Fun, ord, name)
	}
	res, done := c.st.callRes[instr]
	if e.Fun == "called" {
		return tv(smt.BoolLit(done), types.Typ[types.Bool]), nil
	}
	if e.Fun == "callarg" { // callarg(F, n, k): the k-th explicit argument of the latest execution of call n of F
		if len(e.Args) != 3 {
			return typed{}, fmt.Errorf("callarg needs an argument index")
		}
		kLit, ok := e.Args[2].(gcl.IntLit)
		if !ok {
			return typed{}, fmt.Errorf("callarg: argument index must be a literal")
		}
		k, _ := strconv.Atoi(kLit.Val)
		pt := instr.Common().Signature().Params()
		if k >= pt.Len() {
			return typed{}, fmt.Errorf("callarg: %s has %d parameters", name, pt.Len())
		}
		as := c.st.callArgs[instr]
		if !done || k >= len(as) {
			v := x.ctx.Fresh("nocall", x.sortOf(pt.At(k).Type()))
			return tv(v, pt.At(k).Type()), nil
		}
		return tv(as[k], pt.At(k).Type()), nil
	}
	if len(e.Args) != 3 {
		return typed{}, fmt.Errorf("callres needs a result index")
	}
	kLit, ok := e.Args[2].(gcl.IntLit)
	if !ok {
		return typed{}, fmt.Errorf("callres: result index must be a literal")
	}
	k, _ := strconv.Atoi(kLit.Val)
	rt := instr.Common().Signature().Results()
	if k >= rt.Len() {
		return typed{}, fmt.Errorf("callres: %s has %d results", name, rt.Len())
	}
	if !done || k >= len(res) {
		v := x.ctx.Fresh("nocall", x.sortOf(rt.At(k).Type()))
		return tv(v, rt.At(k).Type()), nil
	}
	return tv(res[k], rt.At(k).Type()), nil
}

func dedup(fs []smt.T) []smt.T {
	seen := map[string]bool{}
	var out []smt.T
	for _, f := range fs {
		if !seen[f.S] {
			seen[f.S] = true
			out = append(out, f)
		}
	}
	return out
}
