package sym

import (
	"fmt"
	"go/types"
	"strings"

	"golang.org/x/tools/go/ssa"

	"govc/internal/gcl"
	"govc/internal/smt"
)

type evalCtx struct {
	st    *State             // state in which heaps / cells are read
	old   *State             // state for old(...)
	env   map[string]binding // names bound by the caller (callee-contract application) or quantifiers
	fr    *frame             // frame whose locals are visible (own-contract evaluation)
	inOld bool
}

type typed struct {
	t   smt.T
	typ types.Type // may be nil for spec-level values
}

// evalClause evaluates a clause of the function under verification: parameters (entry values), results, locals.
func (x *Exec) evalClause(e gcl.Expr, st, old *State, fr *frame, results []smt.T) (smt.T, error) {
	env := map[string]binding{}
	for n, b := range x.params {
		env[n] = b
	}
	if recv := x.fn.Signature.Recv(); recv != nil && len(x.fn.Params) > 0 {
		env["this"] = x.params[x.fn.Params[0].Name()]
	}
	res := x.fn.Signature.Results()
	for i := 0; i < res.Len() && i < len(results); i++ {
		env[fmt.Sprintf("r%d", i)] = binding{results[i], res.At(i).Type()}
		if n := res.At(i).Name(); n != "" && n != "_" {
			env[n] = binding{results[i], res.At(i).Type()}
		}
	}
	return x.evalExpr(e, &evalCtx{st: st, old: old, env: env, fr: fr})
}

func (x *Exec) evalExpr(e gcl.Expr, c *evalCtx) (smt.T, error) {
	v, err := x.evalTyped(e, c)
	return v.t, err
}

func (x *Exec) curState(c *evalCtx) *State {
	if c.inOld {
		return c.old
	}
	return c.st
}

func (x *Exec) evalTyped(e gcl.Expr, c *evalCtx) (typed, error) {
	switch e := e.(type) {
	case gcl.IntLit:
		var n int64
		if _, err := fmt.Sscan(e.Val, &n); err != nil {
			if _, err2 := fmt.Sscanf(e.Val, "0x%x", &n); err2 != nil {
				return typed{}, fmt.Errorf("bad integer %q", e.Val)
			}
		}
		return typed{smt.IntLit(n), types.Typ[types.Int]}, nil
	case gcl.BoolLit:
		return typed{smt.BoolLit(e.Val), types.Typ[types.Bool]}, nil
	case gcl.NilLit:
		return typed{smt.IntLit(0), types.Typ[types.UntypedNil]}, nil
	case gcl.Ident:
		return x.evalIdent(e.Name, c)
	case gcl.Old:
		c2 := *c
		c2.inOld = true
		return x.evalTyped(e.X, &c2)
	case gcl.Unary:
		v, err := x.evalTyped(e.X, c)
		if err != nil {
			return typed{}, err
		}
		if e.Op == "!" {
			return typed{smt.Not(v.t), types.Typ[types.Bool]}, nil
		}
		return typed{smt.App(smt.Int, "-", v.t), v.typ}, nil
	case gcl.Cond:
		cc, err := x.evalTyped(e.C, c)
		if err != nil {
			return typed{}, err
		}
		a, err := x.evalTyped(e.A, c)
		if err != nil {
			return typed{}, err
		}
		b, err := x.evalTyped(e.B, c)
		if err != nil {
			return typed{}, err
		}
		return typed{smt.Ite(cc.t, a.t, b.t), a.typ}, nil
	case gcl.Binary:
		return x.evalBinary(e, c)
	case gcl.Quant:
		c2 := *c
		c2.env = map[string]binding{}
		for k, v := range c.env {
			c2.env[k] = v
		}
		var decl []string
		for _, v := range e.Vars {
			name := v + "!b"
			c2.env[v] = binding{smt.Raw(name, smt.Int), types.Typ[types.Int]}
			decl = append(decl, "("+name+" Int)")
		}
		body, err := x.evalTyped(e.Body, &c2)
		if err != nil {
			return typed{}, err
		}
		q := "exists"
		if e.Forall {
			q = "forall"
		}
		return typed{smt.Raw("("+q+" ("+strings.Join(decl, " ")+") "+body.t.S+")", smt.Bool), types.Typ[types.Bool]}, nil
	case gcl.Field:
		// package-qualified global (io.EOF, pq.Done)?
		if id, ok := e.X.(gcl.Ident); ok {
			if _, bound := c.env[id.Name]; !bound && x.localNamed(id.Name, c) == nil {
				if g := x.lookupQualifiedGlobal(id.Name, e.Name); g != nil {
					return x.globalValue(g, c)
				}
			}
		}
		base, err := x.evalTyped(e.X, c)
		if err != nil {
			return typed{}, err
		}
		return x.evalField(base, e.Name, c)
	case gcl.Index:
		base, err := x.evalTyped(e.X, c)
		if err != nil {
			return typed{}, err
		}
		idx, err := x.evalTyped(e.I, c)
		if err != nil {
			return typed{}, err
		}
		switch t := base.typ.Underlying().(type) {
		case *types.Slice:
			hn, hs := x.elemHeap(t.Elem())
			h := x.heap(x.curState(c), hn, hs)
			return typed{smt.Select(smt.Select(h, sArr(base.t)), smt.Add(sOff(base.t), idx.t)), t.Elem()}, nil
		case *types.Array:
			return typed{smt.Select(base.t, idx.t), t.Elem()}, nil
		}
		return typed{}, fmt.Errorf("cannot index %s", e.X)
	case gcl.Call:
		return x.evalCall(e, c)
	}
	return typed{}, fmt.Errorf("unsupported expression %T", e)
}

func (x *Exec) localNamed(name string, c *evalCtx) *ssa.Alloc {
	if c.fr == nil {
		return nil
	}
	var best *ssa.Alloc
	for f := c.fr; f != nil; f = f.parent {
		for _, b := range f.fn.Blocks {
			for _, in := range b.Instrs {
				if a, ok := in.(*ssa.Alloc); ok && a.Comment == name {
					if _, live := c.st.cells[a]; live || !x.isRegCell(a) {
						if best == nil || a.Pos() > best.Pos() {
							best = a
						}
					}
				}
			}
		}
		if best != nil {
			return best
		}
	}
	return nil
}

func (x *Exec) evalIdent(name string, c *evalCtx) (typed, error) {
	if b, ok := c.env[name]; ok {
		return typed{b.t, b.typ}, nil
	}
	if name == "iter" && c.fr != nil { // range loop iteration counter = rangeindex + 1 of the innermost live range loop
		if a := x.localNamed("rangeindex", c); a != nil {
			return typed{smt.Add(c.st.cells[a], smt.IntLit(1)), types.Typ[types.Int]}, nil
		}
	}
	if a := x.localNamed(name, c); a != nil {
		st := c.st // locals always have their current value, old() only rewinds heaps and parameters
		if v, ok := st.cells[a]; ok {
			return typed{v, deref(a.Type())}, nil
		}
	}
	// package-level constants and error variables of the function's package
	if x.fn.Pkg != nil {
		if o := x.fn.Pkg.Pkg.Scope().Lookup(name); o != nil {
			switch o := o.(type) {
			case *types.Const:
				return typed{smt.IntLitS(o.Val().ExactString()), o.Type()}, nil
			case *types.Var:
				return x.globalValue(o, c)
			}
		}
	}
	return typed{}, fmt.Errorf("unknown identifier %q", name)
}

func (x *Exec) lookupQualifiedGlobal(pkgName, name string) types.Object {
	if x.fn.Pkg == nil {
		return nil
	}
	for _, imp := range x.fn.Pkg.Pkg.Imports() {
		if imp.Name() == pkgName {
			return imp.Scope().Lookup(name)
		}
	}
	// also allow referring to any loaded package by its name
	for _, p := range x.P.Prog.AllPackages() {
		if p.Pkg.Name() == pkgName {
			if o := p.Pkg.Scope().Lookup(name); o != nil {
				return o
			}
		}
	}
	return nil
}

func (x *Exec) globalValue(o types.Object, c *evalCtx) (typed, error) {
	switch o := o.(type) {
	case *types.Const:
		return typed{smt.IntLitS(o.Val().ExactString()), o.Type()}, nil
	case *types.Var:
		if isErrorType(o.Type()) {
			return typed{x.errGlobal(o.Pkg().Path() + "." + o.Name()), o.Type()}, nil
		}
		hn := "G$" + o.Pkg().Path() + "." + o.Name()
		return typed{x.heap(x.curState(c), hn, x.sortOf(o.Type())), o.Type()}, nil
	}
	return typed{}, fmt.Errorf("unsupported global %s", o.Name())
}

func (x *Exec) evalField(base typed, name string, c *evalCtx) (typed, error) {
	if base.typ == nil {
		return typed{}, fmt.Errorf("field %s of untyped value", name)
	}
	t := base.typ
	isPtr := false
	if p, ok := t.Underlying().(*types.Pointer); ok {
		t, isPtr = p.Elem(), true
	}
	stt, ok := t.Underlying().(*types.Struct)
	if !ok {
		return typed{}, fmt.Errorf("field %s of non-struct %s", name, t)
	}
	for i := 0; i < stt.NumFields(); i++ {
		if stt.Field(i).Name() == name {
			ft := stt.Field(i).Type()
			if isPtr {
				hn, hs := x.fieldHeap(t, i)
				h := x.heap(x.curState(c), hn, hs)
				return typed{smt.Select(h, base.t), ft}, nil
			}
			x.structSort(t, stt)
			return typed{smt.App(x.sortOf(ft), smt.Sym(fmt.Sprintf("S$%s.%d", typeName(t), i)), base.t), ft}, nil
		}
	}
	return typed{}, fmt.Errorf("no field %s in %s", name, t)
}

func (x *Exec) evalBinary(e gcl.Binary, c *evalCtx) (typed, error) {
	l, err := x.evalTyped(e.L, c)
	if err != nil {
		return typed{}, err
	}
	r, err := x.evalTyped(e.R, c)
	if err != nil {
		return typed{}, err
	}
	b := types.Typ[types.Bool]
	switch e.Op {
	case "&&":
		return typed{smt.And(l.t, r.t), b}, nil
	case "||":
		return typed{smt.Or(l.t, r.t), b}, nil
	case "==>":
		return typed{smt.Implies(l.t, r.t), b}, nil
	case "<==>":
		return typed{smt.Eq(l.t, r.t), b}, nil
	case "==", "!=", "===", "!==":
		var eq smt.T
		lt, rt := l.typ, r.typ
		isSlice := func(t types.Type) bool {
			if t == nil {
				return false
			}
			_, ok := t.Underlying().(*types.Slice)
			return ok
		}
		switch {
		case e.Op[:2] != "==" || len(e.Op) == 2:
			if isSlice(lt) && !isSlice(rt) { // s == nil
				eq = smt.Eq(sArr(l.t), smt.IntLit(0))
			} else if isSlice(rt) && !isSlice(lt) {
				eq = smt.Eq(sArr(r.t), smt.IntLit(0))
			} else {
				eq = smt.Eq(l.t, r.t)
			}
		default:
			eq = smt.Eq(l.t, r.t)
		}
		if strings.HasPrefix(e.Op, "!") {
			eq = smt.Not(eq)
		}
		return typed{eq, b}, nil
	case "<", "<=", ">", ">=":
		return typed{smt.App(smt.Bool, e.Op, l.t, r.t), b}, nil
	case "+", "-", "*":
		return typed{smt.App(smt.Int, e.Op, l.t, r.t), l.typ}, nil
	case "/":
		return typed{smt.App(smt.Int, "div", l.t, r.t), l.typ}, nil
	case "%":
		return typed{smt.App(smt.Int, "mod", l.t, r.t), l.typ}, nil
	}
	return typed{}, fmt.Errorf("unsupported operator %s", e.Op)
}

func (x *Exec) evalCall(e gcl.Call, c *evalCtx) (typed, error) {
	var args []typed
	for _, a := range e.Args {
		v, err := x.evalTyped(a, c)
		if err != nil {
			return typed{}, err
		}
		args = append(args, v)
	}
	switch e.Fun {
	case "len":
		if len(args) == 1 && args[0].typ != nil {
			if _, ok := args[0].typ.Underlying().(*types.Slice); ok {
				return typed{sLen(args[0].t), types.Typ[types.Int]}, nil
			}
			if arr, ok := args[0].typ.Underlying().(*types.Array); ok {
				return typed{smt.IntLit(arr.Len()), types.Typ[types.Int]}, nil
			}
			f := x.ctx.Fun("slen", []string{args[0].t.Sort}, smt.Int)
			return typed{smt.App(smt.Int, f, args[0].t), types.Typ[types.Int]}, nil
		}
	case "cap":
		return typed{sCap(args[0].t), types.Typ[types.Int]}, nil
	case "errIs":
		return typed{x.errIs(args[0].t, args[1].t), types.Typ[types.Bool]}, nil
	case "max":
		return typed{smt.Ite(smt.Lt(args[0].t, args[1].t), args[1].t, args[0].t), args[0].typ}, nil
	case "min":
		return typed{smt.Ite(smt.Lt(args[1].t, args[0].t), args[1].t, args[0].t), args[0].typ}, nil
	}
	// ghost heaps:  g(obj)
	if sort, ok := x.P.Ghosts[e.Fun]; ok && len(args) == 1 {
		hn := "GH$" + e.Fun
		h := x.heap(x.curState(c), hn, smt.ArraySort(smt.Int, sort))
		return typed{smt.Select(h, args[0].t), nil}, nil
	}
	// spec functions
	if sp, ok := x.P.Specs[e.Fun]; ok {
		if len(sp.Params) != len(args) {
			return typed{}, fmt.Errorf("spec %s: wrong number of arguments", e.Fun)
		}
		if sp.Body != nil {
			c2 := *c
			c2.env = map[string]binding{}
			for k, v := range c.env {
				c2.env[k] = v
			}
			for i, p := range sp.Params {
				c2.env[p[0]] = binding{args[i].t, args[i].typ}
			}
			return x.evalTyped(sp.Body, &c2)
		}
		var sorts []string
		var ts []smt.T
		for i, p := range sp.Params {
			sorts = append(sorts, x.specSort(p[1]))
			ts = append(ts, args[i].t)
		}
		ret := x.specSort(sp.Ret)
		f := x.ctx.Fun("spec$"+e.Fun, sorts, ret)
		return typed{smt.App(ret, f, ts...), x.specGoType(sp.Ret)}, nil
	}
	return typed{}, fmt.Errorf("unknown function %s in contract", e.Fun)
}

func (x *Exec) specSort(s string) string {
	switch s {
	case "Int", "Ref", "Err", "int":
		return smt.Int
	case "Bool", "bool":
		return smt.Bool
	case "Slice", "Bytes":
		x.declSlice()
		return SliceSort
	}
	return x.ctx.Sort(s)
}

func (x *Exec) specGoType(s string) types.Type {
	switch s {
	case "Slice", "Bytes":
		return types.NewSlice(types.Typ[types.Uint8])
	case "Int", "int":
		return types.Typ[types.Int]
	case "Bool", "bool":
		return types.Typ[types.Bool]
	}
	return nil
}
