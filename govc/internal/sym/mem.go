package sym

import (
	"fmt"
	"go/token"
	"go/types"
	"strings"

	"golang.org/x/tools/go/ssa"

	"govc/internal/smt"
)

// ---------- memory: allocation, addresses, loads and stores
//
// Scalars (everything that is not a struct or array) live in per-field / per-element-type / per-pointee-type heaps.
// Aggregates (structs, arrays) have no heap of their own: an aggregate is identified by a reference (a pointer value,
// a fresh allocation, or an interior reference fa$T.f(outer) / ea$T(arr,i)) and its scalar leaves live in the heaps.

func (x *Exec) doAlloc(fr *frame, st *State, in *ssa.Alloc) {
	et := deref(in.Type())
	if x.isRegCell(in) {
		st.cells[in] = x.zero(et)
		fr.addrs[in] = addr{kind: "cell", cell: in, typ: et}
		return
	}
	ref := x.freshRef(st, "alloc$"+in.Comment)
	fr.regs[in] = ref
	x.zeroGhosts(st, ref)
	if isAggregate(et) {
		fr.addrs[in] = addr{kind: "agg", base: ref, typ: et}
		x.storeAgg(st, et, ref, smt.T{}, true)
		return
	}
	hn, hs := x.ptrHeap(et)
	h := x.heap(st, hn, hs)
	st.heaps[hn] = smt.Store(h, ref, x.zero(et))
}

func (x *Exec) elemRef(et types.Type, arr, idx smt.T) smt.T {
	f := x.ctx.Fun("ea$"+typeName(et), []string{smt.Int, smt.Int}, smt.Int)
	if _, ok := x.axioms["ax:"+f]; !ok {
		x.ctx.Fun("fresh$", []string{smt.Int}, smt.Bool)
		x.axioms["ax:"+f] = "(assert (forall ((r!a Int) (i!a Int)) (! (and (= (fresh$ (" + f + " r!a i!a)) (fresh$ r!a)) (=> (> r!a 0) (> (" + f + " r!a i!a) 0))) :pattern ((" + f + " r!a i!a)))))"
	}
	return smt.App(smt.Int, f, arr, idx)
}

// loadAgg reads the aggregate of type t located at ref.
func (x *Exec) loadAgg(st *State, t types.Type, ref smt.T) smt.T {
	switch u := t.Underlying().(type) {
	case *types.Struct:
		var fs []smt.T
		for i := 0; i < u.NumFields(); i++ {
			ft := u.Field(i).Type()
			if isAggregate(ft) {
				fs = append(fs, x.loadAgg(st, ft, x.interiorRef(t, i, ref)))
			} else {
				hn, hs := x.fieldHeap(t, i)
				fs = append(fs, smt.Select(x.heap(st, hn, hs), ref))
			}
		}
		return x.mkStruct(t, u, fs)
	case *types.Array:
		if isAggregate(u.Elem()) {
			x.diag("array of aggregates read as a whole: opaque")
			return x.freshOf(st, "aggarr", t)
		}
		hn, hs := x.elemHeap(u.Elem())
		return smt.Select(x.heap(st, hn, hs), ref)
	}
	panic("loadAgg of non-aggregate")
}

// storeAgg writes v (or the zero value if zero is set) to the aggregate of type t at ref.
func (x *Exec) storeAgg(st *State, t types.Type, ref smt.T, v smt.T, zero bool) {
	switch u := t.Underlying().(type) {
	case *types.Struct:
		for i := 0; i < u.NumFields(); i++ {
			ft := u.Field(i).Type()
			var fv smt.T
			if !zero {
				fv = x.structField(t, u, i, v)
			}
			if isAggregate(ft) {
				x.storeAgg(st, ft, x.interiorRef(t, i, ref), fv, zero)
			} else {
				if zero {
					fv = x.zero(ft)
				}
				hn, hs := x.fieldHeap(t, i)
				st.heaps[hn] = smt.Store(x.heap(st, hn, hs), ref, fv)
			}
		}
	case *types.Array:
		if isAggregate(u.Elem()) {
			if !zero {
				x.fatal("store of an array of aggregates")
			}
			return
		}
		hn, hs := x.elemHeap(u.Elem())
		if zero {
			v = x.zero(t)
		}
		st.heaps[hn] = smt.Store(x.heap(st, hn, hs), ref, v)
	}
}

func (x *Exec) doFieldAddr(fr *frame, st *State, in *ssa.FieldAddr) {
	base := x.val(fr, st, in.X)
	pt := in.X.Type().Underlying().(*types.Pointer).Elem()
	ft := pt.Underlying().(*types.Struct).Field(in.Field).Type()
	x.safety(st, "nopanic", "nil-deref", smt.Not(smt.Eq(base, smt.IntLit(0))), in)
	if isAggregate(ft) {
		fr.addrs[in] = addr{kind: "agg", base: x.interiorRef(pt, in.Field, base), typ: ft}
		return
	}
	h, _ := x.fieldHeap(pt, in.Field)
	fr.addrs[in] = addr{kind: "field", heap: h, base: base, typ: ft}
}

func (x *Exec) doIndexAddr(fr *frame, st *State, in *ssa.IndexAddr) {
	idx := x.val(fr, st, in.Index)
	var arr, pos smt.T
	var et types.Type
	switch t := in.X.Type().Underlying().(type) {
	case *types.Slice:
		s := x.val(fr, st, in.X)
		et = t.Elem()
		x.safety(st, "nopanic", "index-in-bounds", smt.And(smt.Le(smt.IntLit(0), idx), smt.Lt(idx, sLen(s))), in)
		arr, pos = sArr(s), x.at(sOff(s), idx)
	case *types.Pointer: // pointer to array
		a := t.Elem().Underlying().(*types.Array)
		et = a.Elem()
		arr, pos = x.val(fr, st, in.X), idx
		x.safety(st, "nopanic", "index-in-bounds", smt.And(smt.Le(smt.IntLit(0), idx), smt.Lt(idx, smt.IntLit(a.Len()))), in)
	default:
		x.fatal("IndexAddr on %s", in.X.Type())
		return
	}
	if isAggregate(et) {
		fr.addrs[in] = addr{kind: "agg", base: x.elemRef(et, arr, pos), typ: et}
		return
	}
	hn, _ := x.elemHeap(et)
	fr.addrs[in] = addr{kind: "elem", heap: hn, base: arr, idx: pos, typ: et}
}

// resolveAddr finds what a pointer-typed SSA value designates.
func (x *Exec) resolveAddr(fr *frame, st *State, p ssa.Value) (addr, *frame) {
	for f := fr; f != nil; f = f.parent {
		if a, ok := f.addrs[p]; ok {
			return a, f
		}
		if fv, ok := p.(*ssa.FreeVar); ok {
			if pv, ok := f.freeVars[fv]; ok {
				p = pv
				continue
			}
		}
		break
	}
	if v, ok := p.(*ssa.Global); ok {
		et := deref(v.Type())
		if isAggregate(et) {
			return addr{kind: "agg", base: x.ctx.Const("&g$"+v.String(), smt.Int), typ: et}, fr
		}
		return addr{kind: "global", heap: "G$" + v.String(), typ: et}, fr
	}
	// generic pointer value
	et := deref(p.Type())
	base := x.val(fr, st, p)
	if isAggregate(et) {
		return addr{kind: "agg", base: base, typ: et}, fr
	}
	hn, _ := x.ptrHeap(et)
	return addr{kind: "ptr", heap: hn, base: base, typ: et}, fr
}

func (x *Exec) load(fr *frame, st *State, p ssa.Value, in ssa.Instruction) smt.T {
	a, _ := x.resolveAddr(fr, st, p)
	return x.loadAddr(st, a, in)
}

func (x *Exec) loadAddr(st *State, a addr, in ssa.Instruction) smt.T {
	switch a.kind {
	case "cell":
		if v, ok := st.cells[a.cell]; ok {
			return v
		}
		v := x.freshOf(st, "cell$"+a.cell.Comment, a.typ)
		st.cells[a.cell] = v
		return v
	case "field":
		h := x.heap(st, a.heap, smt.ArraySort(smt.Int, x.sortOf(a.typ)))
		v := smt.Select(h, a.base)
		st.assume(x.typeFacts(v, a.typ)...)
		return v
	case "elem":
		es := x.sortOf(a.typ)
		h := x.heap(st, a.heap, smt.ArraySort(smt.Int, smt.ArraySort(smt.Int, es)))
		v := smt.Select(smt.Select(h, a.base), a.idx)
		st.assume(x.typeFacts(v, a.typ)...)
		return v
	case "ptr":
		if in != nil {
			x.safety(st, "nopanic", "nil-deref", smt.Not(smt.Eq(a.base, smt.IntLit(0))), in)
		}
		if x.addrTaken {
			x.fatal("load through a pointer while the address of a scalar field was taken as a value (aliasing not modelled)")
		}
		h := x.heap(st, a.heap, smt.ArraySort(smt.Int, x.sortOf(a.typ)))
		v := smt.Select(h, a.base)
		st.assume(x.typeFacts(v, a.typ)...)
		return v
	case "global":
		if isErrorType(a.typ) {
			return x.errGlobal(strings.TrimPrefix(a.heap, "G$"))
		}
		v := x.heap(st, a.heap, x.sortOf(a.typ))
		st.assume(x.typeFacts(v, a.typ)...)
		return v
	case "agg":
		if in != nil {
			x.safety(st, "nopanic", "nil-deref", smt.Not(smt.Eq(a.base, smt.IntLit(0))), in)
		}
		v := x.loadAgg(st, a.typ, a.base)
		st.assume(x.typeFacts(v, a.typ)...)
		return v
	}
	return x.freshOf(st, "load", a.typ)
}

func isErrorType(t types.Type) bool {
	n, ok := t.(*types.Named)
	return ok && n.Obj().Pkg() == nil && n.Obj().Name() == "error"
}

func (x *Exec) errGlobal(name string) smt.T {
	if t, ok := x.errGlobs[name]; ok {
		return t
	}
	t := x.ctx.Const("err$"+name, smt.Int)
	x.errGlobs[name] = t
	return t
}

func (x *Exec) doStore(fr *frame, st *State, in *ssa.Store) {
	v := x.val(fr, st, in.Val)
	a, _ := x.resolveAddr(fr, st, in.Addr)
	x.storeAddr(st, a, v, in)
}

func (x *Exec) storeAddr(st *State, a addr, v smt.T, in ssa.Instruction) {
	switch a.kind {
	case "cell":
		st.cells[a.cell] = v
	case "field":
		h := x.heap(st, a.heap, smt.ArraySort(smt.Int, x.sortOf(a.typ)))
		st.heaps[a.heap] = smt.Store(h, a.base, v)
	case "elem":
		es := x.sortOf(a.typ)
		h := x.heap(st, a.heap, smt.ArraySort(smt.Int, smt.ArraySort(smt.Int, es)))
		st.heaps[a.heap] = smt.Store(h, a.base, smt.Store(smt.Select(h, a.base), a.idx, v))
	case "ptr":
		if in != nil {
			x.safety(st, "nopanic", "nil-deref", smt.Not(smt.Eq(a.base, smt.IntLit(0))), in)
		}
		if x.addrTaken {
			x.fatal("store through a pointer while the address of a scalar field was taken as a value (aliasing not modelled)")
		}
		h := x.heap(st, a.heap, smt.ArraySort(smt.Int, x.sortOf(a.typ)))
		st.heaps[a.heap] = smt.Store(h, a.base, v)
	case "global":
		if isErrorType(a.typ) {
			x.fatal("store to the package-level error variable %s (sentinels are modelled as constants)", a.heap)
			return
		}
		x.regHeap(a.heap, x.sortOf(a.typ))
		st.heaps[a.heap] = v
	case "agg":
		if in != nil {
			x.safety(st, "nopanic", "nil-deref", smt.Not(smt.Eq(a.base, smt.IntLit(0))), in)
		}
		x.storeAgg(st, a.typ, a.base, v, false)
	}
}

func (x *Exec) doUnOp(fr *frame, st *State, in *ssa.UnOp) {
	switch in.Op {
	case token.MUL:
		fr.regs[in] = x.load(fr, st, in.X, in)
		// a function value loaded from a cell that holds a closure keeps its identity
		if a, ok := in.X.(*ssa.Alloc); ok {
			if mc := x.closureInCell(fr, a); mc != nil {
				fr.closures[in] = mc
			}
		}
	case token.NOT:
		fr.regs[in] = smt.Not(x.val(fr, st, in.X))
	case token.SUB:
		r := smt.App(smt.Int, "-", x.val(fr, st, in.X))
		fr.regs[in] = x.arith(st, r, in.Type(), in, "neg")
	case token.ARROW:
		if tu, ok := in.Type().(*types.Tuple); ok {
			var ts []smt.T
			for k := 0; k < tu.Len(); k++ {
				ts = append(ts, x.freshOf(st, "recv", tu.At(k).Type()))
			}
			fr.tuples[in] = ts
		} else {
			fr.regs[in] = x.freshOf(st, "recv", in.Type())
		}
		x.diag("%s: channel receive is opaque", fr.fn.Name())
	case token.XOR:
		f := x.ctx.Fun("bvnot$", []string{smt.Int}, smt.Int)
		r := smt.App(smt.Int, f, x.val(fr, st, in.X))
		st.assume(x.typeFacts(r, in.Type())...)
		fr.regs[in] = r
	default:
		fr.regs[in] = x.freshOf(st, "unop", in.Type())
	}
}

// closureInCell: the cell is assigned exactly once, with a closure created in this function.
func (x *Exec) closureInCell(fr *frame, a *ssa.Alloc) *ssa.MakeClosure {
	var mc *ssa.MakeClosure
	n := 0
	if a.Referrers() == nil {
		return nil
	}
	for _, r := range *a.Referrers() {
		if s, ok := r.(*ssa.Store); ok && s.Addr == ssa.Value(a) {
			n++
			if m, ok := s.Val.(*ssa.MakeClosure); ok {
				mc = m
			}
		}
	}
	if n == 1 && mc != nil {
		return mc
	}
	return nil
}

func (x *Exec) doSlice(fr *frame, st *State, in *ssa.Slice) {
	var lo, hi, mx smt.T
	has := func(v ssa.Value) bool { return v != nil }
	if has(in.Low) {
		lo = x.val(fr, st, in.Low)
	} else {
		lo = smt.IntLit(0)
	}
	x.declSlice()
	switch t := in.X.Type().Underlying().(type) {
	case *types.Slice:
		s := x.val(fr, st, in.X)
		if has(in.High) {
			hi = x.val(fr, st, in.High)
		} else {
			hi = sLen(s)
		}
		if has(in.Max) {
			mx = x.val(fr, st, in.Max)
		} else {
			mx = sCap(s)
		}
		x.safety(st, "nopanic", "slice-bounds", smt.And(smt.Le(smt.IntLit(0), lo), smt.Le(lo, hi), smt.Le(hi, mx), smt.Le(mx, sCap(s))), in)
		// s[lo:hi] of a nil slice is nil (lo == hi == 0); otherwise same array
		fr.regs[in] = mkSlice(sArr(s), smt.Ite(smt.Eq(sArr(s), smt.IntLit(0)), smt.IntLit(0), smt.Add(sOff(s), lo)), smt.Sub(hi, lo), smt.Sub(mx, lo))
	case *types.Pointer: // *[N]T
		arr := t.Elem().Underlying().(*types.Array)
		base := x.val(fr, st, in.X)
		n := smt.IntLit(arr.Len())
		if has(in.High) {
			hi = x.val(fr, st, in.High)
		} else {
			hi = n
		}
		if has(in.Max) {
			mx = x.val(fr, st, in.Max)
		} else {
			mx = n
		}
		x.safety(st, "nopanic", "slice-bounds", smt.And(smt.Le(smt.IntLit(0), lo), smt.Le(lo, hi), smt.Le(hi, mx), smt.Le(mx, n)), in)
		fr.regs[in] = mkSlice(base, lo, smt.Sub(hi, lo), smt.Sub(mx, lo))
	case *types.Basic: // string slicing
		s := x.val(fr, st, in.X)
		if has(in.High) {
			hi = x.val(fr, st, in.High)
		} else {
			hi = x.slen(s)
		}
		x.safety(st, "nopanic", "slice-bounds", smt.And(smt.Le(smt.IntLit(0), lo), smt.Le(lo, hi), smt.Le(hi, x.slen(s))), in)
		f := x.ctx.Fun("substr$", []string{x.ctx.Sort(StrSort), smt.Int, smt.Int}, x.ctx.Sort(StrSort))
		r := smt.App(x.ctx.Sort(StrSort), f, s, lo, hi)
		st.assume(smt.Eq(x.slen(r), smt.Sub(hi, lo)))
		fr.regs[in] = r
	default:
		x.fatal("slice of %s", in.X.Type())
	}
}

func (x *Exec) doMakeSlice(fr *frame, st *State, in *ssa.MakeSlice) {
	ln := x.val(fr, st, in.Len)
	cp := x.val(fr, st, in.Cap)
	x.safety(st, "nopanic", "makeslice-size", smt.And(smt.Le(smt.IntLit(0), ln), smt.Le(ln, cp)), in)
	ref := x.freshRef(st, "mkslice")
	x.declSlice()
	et := in.Type().Underlying().(*types.Slice).Elem()
	if !isAggregate(et) {
		// fresh zeroed array
		hn, hs := x.elemHeap(et)
		h := x.heap(st, hn, hs)
		es := x.sortOf(et)
		zero := x.zeroArray(smt.ArraySort(smt.Int, es), x.zero(et))
		st.heaps[hn] = smt.Store(h, ref, zero)
	}
	fr.regs[in] = mkSlice(ref, smt.IntLit(0), ln, cp)
}

func (x *Exec) doMakeInterface(fr *frame, st *State, in *ssa.MakeInterface) {
	xt := in.X.Type()
	v := x.val(fr, st, in.X)
	var ut types.Type = xt.Underlying()
	if isTypeParam(xt) {
		ut = types.Typ[types.Invalid] // boxed
	}
	switch ut.(type) {
	case *types.Pointer, *types.Signature, *types.Map, *types.Chan, *types.Interface:
		fr.regs[in] = v // same identity
		x.noteDynType(st, v, xt)
	default:
		// boxed value: fresh non-nil identity with a box function remembering the payload
		id := x.freshRef(st, "box")
		s := x.sortOf(xt)
		f := x.ctx.Fun("unbox$"+typeName(xt), []string{smt.Int}, s)
		st.assume(smt.Eq(smt.App(s, f, id), v))
		x.noteDynType(st, id, xt)
		fr.regs[in] = id
	}
}

// noteDynType records the dynamic type of a non-nil interface value.
func (x *Exec) noteDynType(st *State, v smt.T, t types.Type) {
	f := x.ctx.Fun("dyntype", []string{smt.Int}, smt.Int)
	tag := x.ctx.Const("type$"+typeName(t), smt.Int)
	x.typeTags[tag.S] = true
	st.assume(smt.Implies(smt.Not(smt.Eq(v, smt.IntLit(0))), smt.Eq(smt.App(smt.Int, f, v), tag)))
}

func (x *Exec) doTypeAssert(fr *frame, st *State, in *ssa.TypeAssert) {
	v := x.val(fr, st, in.X)
	f := x.ctx.Fun("dyntype", []string{smt.Int}, smt.Int)
	var ok smt.T
	if _, isIface := in.AssertedType.Underlying().(*types.Interface); isIface {
		ok = x.ctx.Fresh("implements", smt.Bool)
		st.assume(smt.Implies(ok, smt.Not(smt.Eq(v, smt.IntLit(0)))))
	} else {
		tag := x.ctx.Const("type$"+typeName(in.AssertedType), smt.Int)
		x.typeTags[tag.S] = true
		ok = smt.And(smt.Not(smt.Eq(v, smt.IntLit(0))), smt.Eq(smt.App(smt.Int, f, v), tag))
	}
	var res smt.T
	switch in.AssertedType.Underlying().(type) {
	case *types.Pointer, *types.Signature, *types.Map, *types.Chan, *types.Interface:
		res = v
	default:
		s := x.sortOf(in.AssertedType)
		uf := x.ctx.Fun("unbox$"+typeName(in.AssertedType), []string{smt.Int}, s)
		res = smt.App(s, uf, v)
	}
	if in.CommaOk {
		fr.tuples[in] = []smt.T{smt.Ite(ok, res, x.zero(in.AssertedType)), ok}
		return
	}
	x.safety(st, "nopanic", "type-assertion", ok, in)
	st.assume(ok) // the failing case panics
	fr.regs[in] = res
}

func (x *Exec) doConvert(fr *frame, st *State, in *ssa.Convert) {
	v := x.val(fr, st, in.X)
	from, to := in.X.Type(), in.Type()
	switch {
	case isInteger(from) && isInteger(to):
		fr.regs[in] = x.arith(st, v, to, in, "conversion")
	default:
		sf, stt := x.sortOf(from), x.sortOf(to)
		if sf == stt {
			fr.regs[in] = v
			return
		}
		var r smt.T
		switch {
		case isByteSlice(from) && isString(to):
			r = x.strOfBytes(st, v)
		case isString(from) && isByteSlice(to):
			r = x.bytesOfStr(st, v)
		default:
			f := x.ctx.Fun("conv$"+typeName(from)+"$"+typeName(to), []string{sf}, stt)
			r = smt.App(stt, f, v)
		}
		st.assume(x.typeFacts(r, to)...)
		fr.regs[in] = r
	}
}

// string(b): a string whose content is the content of b.
func (x *Exec) strOfBytes(st *State, b smt.T) smt.T {
	c := x.content(st, b)
	f := x.ctx.Fun("str$of", []string{BytesSort}, x.ctx.Sort(StrSort))
	r := smt.App(x.ctx.Sort(StrSort), f, c)
	st.assume(smt.Eq(x.slen(r), sLen(b)))
	// the bytes of string(b) are the bytes of b
	x.bytesVocab()
	g := x.ctx.Fun("bytes$of", []string{x.ctx.Sort(StrSort)}, BytesSort)
	st.assume(smt.Eq(smt.App(BytesSort, g, r), c))
	return r
}

// []byte(s): a fresh non-nil array (nil iff ... Go returns a non-nil empty slice for ""; we do not rely on it) with the content of s.
func (x *Exec) bytesOfStr(st *State, s smt.T) smt.T {
	ref := x.freshRef(st, "bytesof")
	x.declSlice()
	r := mkSlice(ref, smt.IntLit(0), x.slen(s), x.slen(s))
	f := x.ctx.Fun("bytes$of", []string{x.ctx.Sort(StrSort)}, BytesSort)
	x.bytesVocab()
	hn, hs := x.elemHeap(types.Typ[types.Uint8])
	h := x.heap(st, hn, hs)
	h2 := x.ctx.Fresh(hn, hs)
	st.heaps[hn] = h2
	st.assume(smt.Raw("(forall ((a!q Int)) (! (=> (not (= a!q "+ref.S+")) (= (select "+h2.S+" a!q) (select "+h.S+" a!q))) :pattern ((select "+h2.S+" a!q))))", smt.Bool))
	st.assume(smt.Eq(x.content(st, r), smt.App(BytesSort, f, s)))
	return r
}

var _ = fmt.Sprintf

// zeroGhosts: the ghost state of a freshly allocated object starts at the default value (0 / false / empty row).
func (x *Exec) zeroGhosts(st *State, ref smt.T) {
	for _, name := range smt.SortedKeys(x.P.Ghosts) {
		g := x.P.Ghosts[name]
		if len(g.Params) == 0 || (g.Params[0][1] != "Ref" && g.Params[0][1] != "Int") {
			continue
		}
		var zero string
		switch x.specSort(g.Ret) {
		case smt.Int:
			zero = "0"
		case smt.Bool:
			zero = "false"
		default:
			continue
		}
		poly := false
		for _, p := range g.Params {
			if p[1] == "any" {
				poly = true
			}
		}
		if poly {
			continue
		}
		hn, hs := x.ghostHeap(g, nil)
		h := x.heap(st, hn, hs)
		row := elemSortOf(hs)
		v := smt.T{S: zero, Sort: row}
		for k := len(g.Params) - 1; k >= 1; k-- {
			// nested rows: constant arrays
			_ = k
		}
		if len(g.Params) > 1 {
			v = smt.Raw(constArray(row, zero), row)
		}
		st.assume(smt.Eq(smt.Select(h, ref), v))
	}
}

// constArray builds ((as const S) ...) nested down to the leaf value.
func constArray(sort, leaf string) string {
	if !strings.HasPrefix(sort, "(Array ") {
		return leaf
	}
	return "((as const " + sort + ") " + constArray(elemSortOf(sort), leaf) + ")"
}
