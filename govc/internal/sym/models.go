package sym

import (
	"go/types"
	"strings"

	"golang.org/x/tools/go/ssa"

	"govc/internal/smt"
)

// ---------- bytes vocabulary: content values of byte slices
//
// content(s) is an abstract value of sort Bytes that depends only on the array contents in [off, off+len).
// bcmp is bytes.Compare on contents: a total order whose zero set is equality.

func (x *Exec) bytesVocab() {
	if _, ok := x.axioms["bytes"]; ok {
		return
	}
	x.ctx.Sort(BytesSort)
	x.ctx.Fun("bv$", []string{"(Array Int Int)", smt.Int, smt.Int}, BytesSort)
	x.ctx.Fun("blen", []string{BytesSort}, smt.Int)
	x.ctx.Fun("bcmp", []string{BytesSort, BytesSort}, smt.Int)
	x.ctx.Const("bempty", BytesSort)
	x.axioms["bytes"] = strings.Join([]string{
		"(assert (forall ((a (Array Int Int)) (o Int) (n Int)) (! (=> (>= n 0) (= (blen (bv$ a o n)) n)) :pattern ((bv$ a o n)))))",
		"(assert (forall ((a Bytes)) (! (>= (blen a) 0) :pattern ((blen a)))))",
		"(assert (= (blen bempty) 0))",
		"(assert (forall ((a Bytes)) (! (=> (= (blen a) 0) (= a bempty)) :pattern ((blen a)))))",
		"(assert (forall ((a Bytes) (b Bytes)) (! (and (<= (- 1) (bcmp a b)) (<= (bcmp a b) 1) (= (bcmp a b) (- (bcmp b a))) (= (= (bcmp a b) 0) (= a b))) :pattern ((bcmp a b)))))",
		"(assert (forall ((a Bytes) (b Bytes) (c Bytes)) (! (=> (and (<= (bcmp a b) 0) (<= (bcmp b c) 0)) (and (<= (bcmp a c) 0) (=> (or (< (bcmp a b) 0) (< (bcmp b c) 0)) (< (bcmp a c) 0)))) :pattern ((bcmp a b) (bcmp b c)))))",
		"(assert (forall ((a Bytes)) (! (<= (bcmp bempty a) 0) :pattern ((bcmp bempty a)))))",
	}, "\n")
}

// content returns the Bytes value of a byte slice in the given state.
func (x *Exec) content(st *State, s smt.T) smt.T {
	x.bytesVocab()
	hn, hs := x.elemHeap(types.Typ[types.Uint8])
	h := x.heap(st, hn, hs)
	return smt.App(BytesSort, "bv$", smt.Select(h, sArr(s)), sOff(s), sLen(s))
}

func (x *Exec) bcmp(a, b smt.T) smt.T { return smt.App(smt.Int, "bcmp", a, b) }

func (x *Exec) errIs(a, b smt.T) smt.T {
	f := x.ctx.Fun("errIs", []string{smt.Int, smt.Int}, smt.Bool)
	return smt.App(smt.Bool, f, a, b)
}

func (x *Exec) leaf(e smt.T) smt.T {
	f := x.ctx.Fun("errLeaf", []string{smt.Int}, smt.Bool)
	return smt.App(smt.Bool, f, e)
}

// ---------- builtins

func (x *Exec) builtin(fr *frame, st *State, b *ssa.Builtin, c *ssa.CallCommon, args []smt.T, resTypes []types.Type, instr ssa.CallInstruction) []outcome {
	one := func(t smt.T) []outcome { return []outcome{{st: st, results: []smt.T{t}}} }
	switch b.Name() {
	case "ssa:deferstack":
		return one(smt.IntLit(0))
	case "len":
		switch t := c.Args[0].Type().Underlying().(type) {
		case *types.Slice:
			return one(sLen(args[0]))
		case *types.Basic:
			return one(x.slen(args[0]))
		case *types.Array:
			return one(smt.IntLit(t.Len()))
		case *types.Pointer:
			if a, ok := t.Elem().Underlying().(*types.Array); ok {
				return one(smt.IntLit(a.Len()))
			}
		case *types.Map, *types.Chan:
			if r, ok := x.mapLen(st, c.Args[0].Type(), args[0]); ok {
				return one(smt.Ite(smt.Eq(args[0], smt.IntLit(0)), smt.IntLit(0), r))
			}
			r := x.freshOf(st, "maplen", types.Typ[types.Int])
			st.assume(smt.Le(smt.IntLit(0), r))
			return one(r)
		}
	case "cap":
		switch t := c.Args[0].Type().Underlying().(type) {
		case *types.Slice:
			return one(sCap(args[0]))
		case *types.Array:
			return one(smt.IntLit(t.Len()))
		}
	case "max", "min":
		if !isInteger(c.Args[0].Type()) {
			break
		}
		r := args[0]
		for _, a := range args[1:] {
			if b.Name() == "max" {
				r = smt.Ite(smt.Lt(r, a), a, r)
			} else {
				r = smt.Ite(smt.Lt(a, r), a, r)
			}
		}
		return one(r)
	case "append":
		return one(x.doAppend(fr, st, c, args))
	case "copy":
		if r, ok := x.doCopy(fr, st, c, args); ok {
			return one(r)
		}
	case "delete":
		x.doMapDelete(st, c.Args[0].Type(), args[0], args[1])
		return []outcome{{st: st}}
	case "close", "print", "println":
		return []outcome{{st: st}}
	case "panic":
		if in, ok := instr.(ssa.Instruction); ok && in != nil {
			x.safety(st, "nopanic", "explicit-panic", smt.False, in)
		}
		return []outcome{{st: st, panicked: true}}
	case "clear":
		x.havocAll(st)
		return []outcome{{st: st}}
	}
	x.diag("builtin %s not modelled", b.Name())
	return x.havocCall(fr, st, c, resTypes, false)
}

// doAppend: result is in place if the capacity suffices, else a fresh array; old prefix preserved, new elements appended.
func (x *Exec) doAppend(fr *frame, st *State, c *ssa.CallCommon, args []smt.T) smt.T {
	sl := c.Args[0].Type().Underlying().(*types.Slice)
	s, t := args[0], args[1]
	x.declSlice()
	r := x.ctx.Fresh("append", SliceSort)
	var tlen smt.T
	strArg := isString(c.Args[1].Type())
	if strArg {
		tlen = x.slen(t)
	} else {
		tlen = sLen(t)
	}
	newLen := smt.Add(sLen(s), tlen)
	inPlace := smt.Le(newLen, sCap(s))
	st.assume(
		smt.Eq(sLen(r), newLen), smt.Le(newLen, sCap(r)), smt.Le(smt.IntLit(0), sOff(r)), smt.Le(smt.IntLit(0), sArr(r)),
		smt.Le(smt.Add(sOff(r), sCap(r)), smt.IntLitS("4611686018427387904")),
		smt.Implies(smt.And(inPlace, smt.Not(smt.Eq(sArr(s), smt.IntLit(0)))), smt.And(smt.Eq(sArr(r), sArr(s)), smt.Eq(sOff(r), sOff(s)), smt.Eq(sCap(r), sCap(s)))),
		// appending nothing to nil yields nil; anything else is a real array
		smt.Implies(smt.And(smt.Eq(sArr(s), smt.IntLit(0)), smt.Eq(tlen, smt.IntLit(0))), smt.Eq(r, nilSlice)),
		smt.Implies(smt.Or(smt.Not(smt.Eq(sArr(s), smt.IntLit(0))), smt.Lt(smt.IntLit(0), tlen)), smt.Lt(smt.IntLit(0), sArr(r))),
	)
	realloc := smt.Or(smt.Not(inPlace), smt.Eq(sArr(s), smt.IntLit(0)))
	st.assume(smt.Implies(smt.And(realloc, smt.Lt(smt.IntLit(0), sArr(r))), smt.And(x.freshnessOf(st, sArr(r)), smt.Not(x.notFresh(sArr(r))))))
	st.refsMaybe = append(st.refsMaybe, maybeRef{ref: sArr(r), cond: realloc})
	if isAggregate(sl.Elem()) {
		if stt, ok := sl.Elem().Underlying().(*types.Struct); ok && !strArg && x.flatStruct(stt) {
			x.appendStructs(st, sl.Elem(), stt, s, t, r, realloc)
			return r
		}
		x.diag("append on a slice of nested aggregates: element contents not tracked")
		x.havocAll(st)
		return r
	}
	hn, hs := x.elemHeap(sl.Elem())
	h := x.heap(st, hn, hs)
	h2 := x.ctx.Fresh(hn, hs)
	st.heaps[hn] = h2
	ri := smt.Raw("i!q", smt.Int)
	q := func(body smt.T, pats ...smt.T) smt.T {
		var ps []string
		for _, p := range pats {
			ps = append(ps, p.S)
		}
		return smt.Raw("(forall ((i!q Int)) (! "+body.S+" :pattern ("+strings.Join(ps, " ")+")))", smt.Bool)
	}
	relem := smt.Select(smt.Select(h2, sArr(r)), x.at(sOff(r), ri))
	selem := smt.Select(smt.Select(h, sArr(s)), x.at(sOff(s), ri))
	st.assume(q(smt.Implies(smt.And(smt.Le(smt.IntLit(0), ri), smt.Lt(ri, sLen(s))), smt.Eq(relem, selem)), relem))
	if !strArg {
		telem := smt.Select(smt.Select(h, sArr(t)), x.at(sOff(t), smt.Sub(ri, sLen(s))))
		st.assume(q(smt.Implies(smt.And(smt.Le(sLen(s), ri), smt.Lt(ri, newLen)), smt.Eq(relem, telem)), relem))
		// the common single-element case, stated without quantifier as well
		st.assume(smt.Implies(smt.Eq(tlen, smt.IntLit(1)),
			smt.Eq(smt.Select(smt.Select(h2, sArr(r)), x.at(sOff(r), sLen(s))), smt.Select(smt.Select(h, sArr(t)), x.at(sOff(t), smt.IntLit(0))))))
	}
	// frame: other arrays unchanged; an in-place append leaves the cells outside [off+len, off+newLen) of the same array unchanged
	st.assume(smt.Raw("(forall ((a!q Int)) (! (=> (not (= a!q "+sArr(r).S+")) (= (select "+h2.S+" a!q) (select "+h.S+" a!q))) :pattern ((select "+h2.S+" a!q))))", smt.Bool))
	same := smt.Select(smt.Select(h2, sArr(s)), ri)
	st.assume(smt.Implies(smt.Not(realloc), q(smt.Implies(smt.Or(smt.Lt(ri, smt.Add(sOff(s), sLen(s))), smt.Le(smt.Add(sOff(s), newLen), ri)),
		smt.Eq(same, smt.Select(smt.Select(h, sArr(s)), ri))), same)))
	return r
}

func (x *Exec) doCopy(fr *frame, st *State, c *ssa.CallCommon, args []smt.T) (smt.T, bool) {
	sl, ok := c.Args[0].Type().Underlying().(*types.Slice)
	if !ok || isAggregate(sl.Elem()) {
		return smt.T{}, false
	}
	hn, hs := x.elemHeap(sl.Elem())
	h := x.heap(st, hn, hs)
	d, s := args[0], args[1]
	h2 := x.ctx.Fresh(hn, hs)
	st.heaps[hn] = h2
	frame := smt.Raw("(forall ((a!q Int)) (! (=> (not (= a!q "+sArr(d).S+")) (= (select "+h2.S+" a!q) (select "+h.S+" a!q))) :pattern ((select "+h2.S+" a!q))))", smt.Bool)
	ri := smt.Raw("i!q", smt.Int)
	if isString(c.Args[1].Type()) {
		ls := x.slen(s)
		n := smt.Ite(smt.Lt(sLen(d), ls), sLen(d), ls)
		outside := smt.Or(smt.Lt(ri, sOff(d)), smt.Le(smt.Add(sOff(d), n), ri))
		cell := smt.Select(smt.Select(h2, sArr(d)), ri)
		st.assume(frame, smt.Raw("(forall ((i!q Int)) (! (=> "+outside.S+" (= "+cell.S+" "+smt.Select(smt.Select(h, sArr(d)), ri).S+")) :pattern ("+cell.S+")))", smt.Bool))
		return n, true
	}
	n := smt.Ite(smt.Lt(sLen(d), sLen(s)), sLen(d), sLen(s))
	inRange := smt.And(smt.Le(sOff(d), ri), smt.Lt(ri, smt.Add(sOff(d), n)))
	src := smt.Select(smt.Select(h, sArr(s)), x.at(sOff(s), smt.Sub(ri, sOff(d))))
	cell := smt.Select(smt.Select(h2, sArr(d)), ri)
	st.assume(frame,
		smt.Raw("(forall ((i!q Int)) (! (= "+cell.S+" "+smt.Ite(inRange, src, smt.Select(smt.Select(h, sArr(d)), ri)).S+") :pattern ("+cell.S+")))", smt.Bool))
	// copying the whole source into an equally long destination transfers the content value
	if isByteSlice(c.Args[0].Type()) {
		x.bytesVocab()
		st.assume(smt.Implies(smt.And(smt.Eq(sLen(d), sLen(s)), smt.Lt(smt.IntLit(0), sArr(d))),
			smt.Eq(smt.App(BytesSort, "bv$", smt.Select(h2, sArr(d)), sOff(d), sLen(d)), smt.App(BytesSort, "bv$", smt.Select(h, sArr(s)), sOff(s), sLen(s)))))
	}
	return n, true
}

// ---------- library models (part of the trusted base; listed in the evidence)

var modelledFuncs = map[string]bool{
	"errors.Is": true, "errors.New": true, "fmt.Errorf": true, "errors.Join": true, "bytes.Compare": true, "bytes.Equal": true,
	"log.Panicf": true, "log.Fatalf": true, "log.Panic": true, "log.Fatal": true, "os.Exit": true,
	"sync/atomic.AddUint64": true, "sync/atomic.LoadUint64": true, "sync/atomic.AddInt64": true, "sync/atomic.LoadInt64": true,
	"sort.Strings": true, "path/filepath.Base": true, "path/filepath.Join": true,
}

func (x *Exec) modelled(fn *ssa.Function) bool { return modelledFuncs[fn.String()] }

// model implements the built-in models of library functions. ok=false if fn is not modelled.
func (x *Exec) model(fr *frame, st *State, fn *ssa.Function, c *ssa.CallCommon, args []smt.T, resTypes []types.Type, instr ssa.CallInstruction) ([]outcome, bool) {
	one := func(t ...smt.T) ([]outcome, bool) { return []outcome{{st: st, results: t}}, true }
	switch fn.String() {
	case "errors.Is":
		return one(x.errIs(args[0], args[1]))
	case "errors.New":
		e := x.freshRef(st, "errnew")
		st.assume(x.leaf(e))
		return one(e)
	case "fmt.Errorf":
		e := x.freshRef(st, "errorf")
		// which variadic arguments are wrapped with %w?  The format is a constant; args[1] is the []any slice.
		wrapped, ok := x.wrappedArgs(fr, st, c)
		if !ok {
			// unknown format: the result is some non-nil error about which nothing else is known
			return one(e)
		}
		tq := smt.Raw("t!q", smt.Int)
		disj := []smt.T{smt.Eq(e, tq)}
		for _, w := range wrapped {
			disj = append(disj, x.errIs(w, tq))
		}
		st.assume(smt.Raw("(forall ((t!q Int)) (! (= "+x.errIs(e, tq).S+" "+smt.Or(disj...).S+") :pattern ("+x.errIs(e, tq).S+")))", smt.Bool))
		st.assume(smt.Not(x.leaf(e)))
		return one(e)
	case "errors.Join":
		elems := x.varargElems(fr, st, c, 0)
		if elems == nil {
			return nil, false
		}
		e := x.ctx.Fresh("errjoin", smt.Int)
		st.assume(smt.Le(smt.IntLit(0), e))
		allNil := smt.True
		tq := smt.Raw("t!q", smt.Int)
		disj := []smt.T{smt.Eq(e, tq)}
		for _, el := range elems {
			allNil = smt.And(allNil, smt.Eq(el, smt.IntLit(0)))
			disj = append(disj, x.errIs(el, tq))
		}
		st.assume(smt.Ite(allNil, smt.Eq(e, smt.IntLit(0)),
			smt.And(smt.Not(smt.Eq(e, smt.IntLit(0))), smt.Not(x.leaf(e)),
				smt.Raw("(forall ((t!q Int)) (! (= "+x.errIs(e, tq).S+" "+smt.Or(disj...).S+") :pattern ("+x.errIs(e, tq).S+")))", smt.Bool))))
		st.assume(smt.Implies(smt.Not(allNil), x.freshnessOf(st, e)))
		return one(e)
	case "bytes.Compare":
		return one(x.bcmp(x.content(st, args[0]), x.content(st, args[1])))
	case "bytes.Equal":
		return one(smt.Eq(x.content(st, args[0]), x.content(st, args[1])))
	case "log.Panicf", "log.Fatalf", "log.Panic", "log.Fatal", "os.Exit":
		if in, ok := instr.(ssa.Instruction); ok && in != nil {
			x.safety(st, "nopanic", "process-stops@"+fn.Name(), smt.False, in)
		}
		st.trace = append(st.trace, "stops:"+fn.Name())
		return []outcome{{st: st, panicked: true}}, true
	case "sync/atomic.AddUint64", "sync/atomic.AddInt64":
		a, _ := x.resolveAddr(fr, st, c.Args[0])
		old := x.loadAddr(st, a, nil)
		save := x.wrapOK
		x.wrapOK = true
		nv := x.arith(st, smt.Add(old, args[1]), a.typ, nil, "atomic-add")
		x.wrapOK = save
		x.storeAddr(st, a, nv, nil)
		return one(nv)
	case "sync/atomic.LoadUint64", "sync/atomic.LoadInt64":
		a, _ := x.resolveAddr(fr, st, c.Args[0])
		return one(x.loadAddr(st, a, nil))
	case "path/filepath.Base":
		str := x.ctx.Sort(StrSort)
		f := x.ctx.Fun("spec$fbase", []string{str}, str)
		x.noteTrusted("model: filepath.Base(p) = fbase(p) (uninterpreted; axioms in contracts-ext/stdlib.gvc)")
		return one(smt.App(str, f, args[0]))
	case "path/filepath.Join":
		elems := x.varargElems(fr, st, c, 0)
		if len(elems) == 0 {
			return nil, false
		}
		str := x.ctx.Sort(StrSort)
		f := x.ctx.Fun("spec$fjoin", []string{str, str}, str)
		r := elems[0]
		for _, e := range elems[1:] {
			r = smt.App(str, f, r, e)
		}
		x.noteTrusted("model: filepath.Join(a, b) = fjoin(a, b) (uninterpreted; axioms in contracts-ext/stdlib.gvc)")
		return one(r)
	case "sort.Strings":
		// sorted permutation of the argument, in place: modelled as "contents of that array forgotten, ghost fact sorted";
		// identity on an already sorted slice is not used by any contract so far
		hn, hs := x.elemHeap(types.Typ[types.String])
		h := x.heap(st, hn, hs)
		st.heaps[hn] = smt.Store(h, sArr(args[0]), x.ctx.Fresh("sorted", smt.ArraySort(smt.Int, x.ctx.Sort(StrSort))))
		return []outcome{{st: st}}, true
	}
	return nil, false
}

// varargElems recovers the element terms of a variadic argument built as `new [n]T (varargs)` + stores + slice.
func (x *Exec) varargElems(fr *frame, st *State, c *ssa.CallCommon, argIdx int) []smt.T {
	sl, ok := c.Args[argIdx].(*ssa.Slice)
	if !ok {
		if k, ok := c.Args[argIdx].(*ssa.Const); ok && k.Value == nil {
			return []smt.T{} // nil variadic
		}
		return nil
	}
	al, ok := sl.X.(*ssa.Alloc)
	if !ok {
		return nil
	}
	arr, ok := deref(al.Type()).Underlying().(*types.Array)
	if !ok {
		return nil
	}
	elems := make([]smt.T, arr.Len())
	hn, hs := x.elemHeap(arr.Elem())
	h := x.heap(st, hn, hs)
	var ref smt.T
	found := false
	for f := fr; f != nil; f = f.parent {
		if t, ok := f.regs[al]; ok {
			ref, found = t, true
			break
		}
	}
	if !found {
		return nil
	}
	for i := range elems {
		elems[i] = smt.Select(smt.Select(h, ref), smt.IntLit(int64(i)))
	}
	return elems
}

// wrappedArgs returns the terms of the variadic arguments of fmt.Errorf that are consumed by a %w verb.
func (x *Exec) wrappedArgs(fr *frame, st *State, c *ssa.CallCommon) ([]smt.T, bool) {
	format, ok := c.Args[0].(*ssa.Const)
	if !ok || format.Value == nil {
		return nil, false
	}
	f := constantString(format)
	var verbs []byte
	for i := 0; i+1 < len(f); i++ {
		if f[i] == '%' {
			j := i + 1
			for j < len(f) && strings.ContainsRune("+-# 0123456789.*[]", rune(f[j])) {
				j++
			}
			if j < len(f) {
				if f[j] != '%' {
					verbs = append(verbs, f[j])
				}
				i = j
			}
		}
	}
	hasW := false
	for _, v := range verbs {
		if v == 'w' {
			hasW = true
		}
	}
	if !hasW {
		return nil, true
	}
	if len(c.Args) < 2 {
		return nil, false
	}
	elems := x.varargElems(fr, st, c, 1)
	if elems == nil {
		return nil, false
	}
	var ws []smt.T
	for i, v := range verbs {
		if v == 'w' {
			if i >= len(elems) {
				return nil, false
			}
			ws = append(ws, elems[i])
		}
	}
	return ws, true
}

// flatStruct: all fields are scalars (no nested struct / array fields).
func (x *Exec) flatStruct(stt *types.Struct) bool {
	for i := 0; i < stt.NumFields(); i++ {
		if isAggregate(stt.Field(i).Type()) {
			return false
		}
	}
	return true
}

// appendStructs models append on a slice of flat structs: elements live at interior references ea$T(arr, pos), their
// fields in the per-field heaps. Old elements are preserved (copied on reallocation), the appended ones equal t's.
func (x *Exec) appendStructs(st *State, et types.Type, stt *types.Struct, s, t, r smt.T, realloc smt.T) {
	ri := smt.Raw("i!q", smt.Int)
	for k := 0; k < stt.NumFields(); k++ {
		hn, hs := x.fieldHeap(et, k)
		h := x.heap(st, hn, hs)
		h2 := x.ctx.Fresh(hn, hs)
		st.heaps[hn] = h2
		relem := smt.Select(h2, x.elemRef(et, sArr(r), x.at(sOff(r), ri)))
		selem := smt.Select(h, x.elemRef(et, sArr(s), x.at(sOff(s), ri)))
		telem := smt.Select(h, x.elemRef(et, sArr(t), x.at(sOff(t), smt.Sub(ri, sLen(s)))))
		q := func(body, pat smt.T) smt.T {
			return smt.Raw("(forall ((i!q Int)) (! "+body.S+" :pattern ("+pat.S+")))", smt.Bool)
		}
		st.assume(q(smt.Implies(smt.And(smt.Le(smt.IntLit(0), ri), smt.Lt(ri, sLen(s))), smt.Eq(relem, selem)), relem))
		st.assume(q(smt.Implies(smt.And(smt.Le(sLen(s), ri), smt.Lt(ri, smt.Add(sLen(s), sLen(t)))), smt.Eq(relem, telem)), relem))
		st.assume(smt.Implies(smt.Eq(sLen(t), smt.IntLit(1)),
			smt.Eq(smt.Select(h2, x.elemRef(et, sArr(r), x.at(sOff(r), sLen(s)))), smt.Select(h, x.elemRef(et, sArr(t), x.at(sOff(t), smt.IntLit(0)))))))
		// frame: objects that are not elements of the result array keep their field
		rq := smt.Raw("o!q", smt.Int)
		inv := x.ctx.Fun("eaArr$"+typeName(et), []string{smt.Int}, smt.Int)
		st.assume(smt.Raw("(forall ((o!q Int)) (! (=> (not (= ("+inv+" o!q) "+sArr(r).S+")) (= (select "+h2.S+" o!q) (select "+h.S+" o!q))) :pattern ((select "+h2.S+" o!q))))", smt.Bool))
		_ = rq
	}
	// eaArr$T(ea$T(a, p)) == a: the array an element reference belongs to
	f := x.ctx.Fun("ea$"+typeName(et), []string{smt.Int, smt.Int}, smt.Int)
	inv := x.ctx.Fun("eaArr$"+typeName(et), []string{smt.Int}, smt.Int)
	x.axioms["eaArr:"+f] = "(assert (forall ((a!a Int) (p!a Int)) (! (= (" + inv + " (" + f + " a!a p!a)) a!a) :pattern ((" + f + " a!a p!a)))))"
	_ = realloc
}
