package run

import (
	"encoding/json"
	"fmt"
	"os"
	"os/exec"
	"path/filepath"
	"sort"
	"strings"
	"time"

	"govc/internal/gcl"
	"govc/internal/solve"
	"govc/internal/sym"
)

// group collects the failed obligations that stem from one clause of one function.
type group struct {
	Key          string // func|kind|label
	Func         string
	Kind         string
	Label        string
	Source       string
	Jobs         []*Job
	Unit         *Unit
	Reason       string // for binding / subset failures
	boundedRepro bool
}

func tailOf(s string, n int) string {
	if len(s) > n {
		return s[len(s)-n:]
	}
	return s
}

type replayFile struct {
	Property   string            `json:"property"`
	Obligation string            `json:"obligation"`
	Function   string            `json:"function"`
	Kind       string            `json:"kind"`
	Clause     string            `json:"clause"`
	Reason     string            `json:"reason,omitempty"`
	Paths      []replayPath      `json:"paths"`
	Driver     string            `json:"driver,omitempty"`
	Package    string            `json:"package,omitempty"`
	Outcome    string            `json:"replay_outcome"` // reproduced | no-failing-input-found
	DriverLog  string            `json:"driver_output,omitempty"`
	Model      map[string]string `json:"model,omitempty"`
}

type replayPath struct {
	Obligation string            `json:"obligation"`
	Path       string            `json:"path"`
	Answer     string            `json:"solver_answer"`
	Solver     string            `json:"solver"`
	Answers    map[string]string `json:"all_answers,omitempty"`
	Output     string            `json:"solver_output,omitempty"`
	Model      map[string]string `json:"model,omitempty"`
	Script     string            `json:"smt_script,omitempty"`
}

// parseModel extracts the get-value answers ((term value)) following "sat".
func parseModel(j *Job) map[string]string {
	if j.R.Answer != "sat" {
		return nil
	}
	lines := strings.Split(j.R.Output, "\n")
	m := map[string]string{}
	k := 0
	for _, l := range lines[1:] {
		l = strings.TrimSpace(l)
		if !strings.HasPrefix(l, "((") || k >= len(j.O.Watch) {
			continue
		}
		// value = text after the term up to the final "))"
		body := strings.TrimSuffix(strings.TrimPrefix(l, "(("), "))")
		val := body
		if i := strings.LastIndex(body, " "); i >= 0 {
			val = body[i+1:]
			if strings.HasSuffix(body, ")") { // (- 5) style values
				if o := strings.LastIndex(body, "("); o >= 0 {
					val = body[o:]
				}
			}
		}
		m[j.O.Watch[k].Name] = val
		k++
	}
	if len(m) == 0 {
		return nil
	}
	return m
}

func Check(cfg Config, prop string) int {
	t0 := time.Now()
	evidencePath := filepath.Join(cfg.Verif, "evidence", prop+".json")
	os.MkdirAll(filepath.Dir(evidencePath), 0o755)
	p, err := LoadAll(cfg)
	if err != nil {
		fmt.Println("govc: cannot load the repository:", err)
		return 2
	}
	for _, e := range p.Errors {
		fmt.Println("contract error:", e)
	}
	if len(p.Errors) > 0 {
		fmt.Println("govc: contract files do not parse; nothing is decided")
		return 2
	}
	// the functions tagged with the property and every verified function they reach (closure.go); a reached function counts
	// for this property with all its unlabelled obligations, its bounded stand-ins are not run for it
	closure := propertyClosure(p, prop)
	reached := map[string]bool{}
	for k, tagged := range closure {
		if !tagged {
			reached[k] = true
			c := *p.Contracts[k]
			c.Props = append(append([]string{}, c.Props...), prop)
			p.Contracts[k] = &c
		}
	}
	units := generate(cfg, p, func(k string, c *gcl.Contract) bool { _, ok := closure[k]; return ok },
		func(l *gcl.Lemma) bool { return hasProp(l.Props, prop) })
	tgen := time.Since(t0)
	outDir := filepath.Join(cfg.out(), "check-"+prop)
	os.RemoveAll(outDir)
	jobs := solveAll(cfg, units, func(o *sym.Obligation) bool {
		if !hasProp(o.Props, prop) {
			return false
		}
		return true
	}, outDir)

	known := loadKnown(cfg)
	groups := map[string]*group{}
	var gorder []string
	addGroup := func(g *group) *group {
		if old, ok := groups[g.Key]; ok {
			return old
		}
		groups[g.Key] = g
		gorder = append(gorder, g.Key)
		return g
	}
	var fnames []string
	nObl, nDis, nCover, nCoverOK, nDead, nInconcl := 0, 0, 0, 0, 0, 0
	deadBy := map[string]int{}
	deadJobs := map[string][]*Job{}
	bySolver := map[string]int{}
	var solverTime time.Duration
	var slowest *Job
	unitOf := map[*sym.Exec]*Unit{}
	for _, u := range units {
		fnames = append(fnames, short(u.Key))
		if u.X != nil {
			unitOf[u.X] = u
		}
		if u.Unbound {
			addGroup(&group{Key: short(u.Key) + "|binding|contract-binds", Func: short(u.Key), Kind: "binding", Label: "contract-binds", Unit: u,
				Source: "contract " + u.Key + " (" + filepath.Base(u.Contract.File) + ") binds to a function",
				Reason: "the function this contract is written for no longer exists under that name"})
		}
		if len(u.Fatal) > 0 {
			addGroup(&group{Key: short(u.Key) + "|subset|inside-supported-subset", Func: short(u.Key), Kind: "subset", Label: "inside-supported-subset", Unit: u,
				Source: "function is inside the verifier's subset and its contract evaluates", Reason: strings.Join(u.Fatal, "; ")})
		}
	}
	for _, j := range jobs {
		solverTime += j.R.Time
		if j.O.Cover {
			nCover++
			switch j.Status {
			case "cover-ok":
				nCoverOK++
			case "dead-path":
				nDead++
				deadBy[j.O.Func]++
				deadJobs[j.O.Func] = append(deadJobs[j.O.Func], j)
			case "cover-inconclusive":
				nInconcl++
			case "cover-vacuous":
				g := addGroup(&group{Key: j.O.Func + "|" + j.O.Kind + "|" + j.O.Label, Func: j.O.Func, Kind: j.O.Kind, Label: j.O.Label, Source: j.O.Source, Unit: unitOf[j.X],
					Reason: "vacuity: the premises are contradictory, everything below them would verify"})
				g.Jobs = append(g.Jobs, j)
			}
			continue
		}
		nObl++
		if j.Status == "discharged" {
			nDis++
			bySolver[j.R.Solver]++
			if slowest == nil || j.R.Time > slowest.R.Time {
				slowest = j
			}
			continue
		}
		g := addGroup(&group{Key: j.O.Func + "|" + j.O.Kind + "|" + j.O.Label, Func: j.O.Func, Kind: j.O.Kind, Label: j.O.Label, Source: j.O.Source, Unit: unitOf[j.X]})
		g.Jobs = append(g.Jobs, j)
	}
	// vacuity guard: a return path whose facts are contradictory proves everything below it. Infeasible paths exist in
	// correct code too, so the number found per function on the reviewed tree is kept in dead_paths_baseline.json;
	// more than that is reported.
	baseline := map[string]int{}
	if data, err := os.ReadFile(filepath.Join(cfg.Verif, "dead_paths_baseline.json")); err == nil {
		_ = json.Unmarshal(data, &baseline)
	}
	if os.Getenv("GOVC_DEADPATHS") != "" {
		for f, n := range deadBy {
			fmt.Printf("DEADPATHS %q: %d,\n", f, n)
		}
	}
	for f, n := range deadBy {
		if n > baseline[f] {
			g := addGroup(&group{Key: f + "|vacuity|unexpected-dead-path", Func: f, Kind: "vacuity", Label: "unexpected-dead-path", Unit: nil,
				Source: fmt.Sprintf("at most %d return paths of %s are infeasible (reviewed baseline)", baseline[f], f),
				Reason: fmt.Sprintf("%d return paths have contradictory facts; obligations on such a path hold vacuously", n)})
			g.Jobs = append(g.Jobs, deadJobs[f]...)
		}
	}
	// bounded stand-ins: drivers that exercise the real function up to a stated bound; never counted as proved
	var boundedEv []any
	seenDrv := map[string]bool{}
	for _, u := range units {
		if u.Contract == nil || u.Unbound || reached[u.Key] {
			continue
		}
		for _, b := range u.Contract.Bounded {
			fs := strings.Fields(b)
			if len(fs) == 0 || seenDrv[fs[0]] {
				continue
			}
			seenDrv[fs[0]] = true
			t1 := time.Now()
			pkgDir := strings.TrimPrefix(u.Contract.Pkg, modulePrefix)
			outcome, log := runDriver(cfg, pkgDir, fs[0], "")
			rec := map[string]any{"driver": fs[0], "function": short(u.Key), "bound": strings.Join(fs[1:], " "), "s": round3(time.Since(t1).Seconds())}
			if outcome == "reproduced" {
				rec["outcome"] = "violation found within the bound"
				g := addGroup(&group{Key: short(u.Key) + "|bounded|" + fs[0], Func: short(u.Key), Kind: "bounded", Label: fs[0], Unit: u,
					Source: "bounded stand-in " + fs[0] + " (" + strings.Join(fs[1:], " ") + ") finds no violation", Reason: tailOf(log, 1500)})
				g.boundedRepro = true
			} else if outcome == "did-not-complete" {
				// a stand-in that does not build or does not finish has explored nothing: that is not a pass
				rec["outcome"] = "driver did not complete"
				addGroup(&group{Key: short(u.Key) + "|bounded|" + fs[0] + "|did-not-complete", Func: short(u.Key), Kind: "bounded", Label: fs[0] + "-did-not-complete", Unit: u,
					Source: "bounded stand-in " + fs[0] + " builds and runs to completion", Reason: tailOf(log, 1500)})
			} else {
				rec["outcome"] = "no violation within the bound"
			}
			boundedEv = append(boundedEv, rec)
		}
	}
	// obligation count must be non-zero for a claimed property
	if nObl == 0 && len(groups) == 0 {
		addGroup(&group{Key: "govc|vacuity|obligations-exist", Func: "govc", Kind: "vacuity", Label: "obligations-exist",
			Source: "at least one obligation is generated for property " + prop, Reason: "no contract or lemma is tagged with this property: the check would pass vacuously"})
	}

	violations := 0
	var knownHit []string
	knownObl := 0
	replayDir := filepath.Join(cfg.out(), "replay", prop)
	os.RemoveAll(replayDir)
	for _, key := range gorder {
		g := groups[key]
		// known finding?  every failed path of the group must be covered by a listed finding
		var hit *Finding
		allKnown := len(g.Jobs) > 0
		for _, j := range g.Jobs {
			found := false
			for i := range known.Findings {
				f := &known.Findings[i]
				if f.Property == prop && glob(f.Match, j.O.Name) {
					found = true
					hit = f
				}
			}
			if !found {
				allKnown = false
			}
		}
		if len(g.Jobs) == 0 {
			for i := range known.Findings {
				f := &known.Findings[i]
				if f.Property == prop && glob(f.Match, g.Key) {
					allKnown, hit = true, f
				}
			}
		}
		if allKnown && hit != nil {
			line := fmt.Sprintf("KNOWN-FINDING: property=%s %s %s", prop, hit.ID, hit.What)
			dup := false
			for _, l := range knownHit {
				if l == line {
					dup = true
				}
			}
			if !dup {
				knownHit = append(knownHit, line)
				fmt.Println(line)
			}
			knownObl += len(g.Jobs)
			continue
		}
		violations++
		rf := &replayFile{Property: prop, Obligation: g.Key, Function: g.Func, Kind: g.Kind, Clause: g.Source, Reason: g.Reason, Outcome: "no-failing-input-found"}
		for _, j := range g.Jobs {
			rp := replayPath{Obligation: j.O.Name, Path: j.O.Path, Answer: j.R.Answer, Solver: j.R.Solver, Answers: j.R.All, Model: parseModel(j)}
			out := j.R.Output
			if len(out) > 4000 {
				out = out[:4000] + "…"
			}
			rp.Output = out
			rp.Script = j.O.Name
			if rf.Model == nil && rp.Model != nil {
				rf.Model = rp.Model
			}
			rf.Paths = append(rf.Paths, rp)
		}
		if g.boundedRepro {
			rf.Outcome = "reproduced"
			rf.Driver = g.Label
			rf.Package = strings.TrimPrefix(g.Unit.Contract.Pkg, modulePrefix)
			rf.DriverLog = g.Reason
		} else if g.Unit != nil && g.Unit.Contract != nil && g.Unit.Contract.Replay != "" && g.Kind != "binding" {
			rf.Driver = g.Unit.Contract.Replay
			rf.Package = strings.TrimPrefix(g.Unit.Contract.Pkg, modulePrefix)
		}
		os.MkdirAll(replayDir, 0o755)
		path := filepath.Join(replayDir, hashOf(g.Key)+".json")
		writeJSON(path, rf)
		if rf.Driver != "" && !g.boundedRepro {
			outcome, log := runDriver(cfg, rf.Package, rf.Driver, path)
			rf.Outcome, rf.DriverLog = outcome, log
			writeJSON(path, rf)
		}
		suffix := ""
		if rf.Outcome != "reproduced" {
			suffix = " obligation=" + strings.ReplaceAll(g.Key, " ", "_") + " no-failing-input-found"
		} else {
			suffix = " obligation=" + strings.ReplaceAll(g.Key, " ", "_") + " reproduced-on-real-code"
		}
		fmt.Printf("VIOLATION property=%s replay=%s%s\n", prop, path, suffix)
		if cfg.Verbose || true {
			fmt.Printf("  failed obligation: %s\n  clause: %s\n", g.Key, g.Source)
			if g.Reason != "" {
				fmt.Printf("  reason: %s\n", g.Reason)
			}
			for i, j := range g.Jobs {
				if i >= 3 {
					fmt.Printf("  … %d more paths\n", len(g.Jobs)-3)
					break
				}
				fmt.Printf("  path: %s  [%s by %s]\n", j.O.Path, j.R.Answer, j.R.Solver)
			}
		}
	}

	// evidence
	sort.Strings(fnames)
	var samples []any
	for i, j := range jobs {
		if j.O.Cover || j.Status != "discharged" {
			continue
		}
		if len(samples) < 6 && (i%(len(jobs)/6+1) == 0 || len(samples) == 0) {
			samples = append(samples, map[string]any{"obligation": j.O.Name, "kind": j.O.Kind, "clause": j.O.Source, "path": j.O.Path,
				"smt_bytes": len(j.Script), "solver": j.R.Solver, "s": round3(j.R.Time.Seconds())})
		}
	}
	if len(samples) == 0 {
		samples = append(samples, map[string]any{"note": "no obligation was discharged in this run"})
	}
	trusted, assumptions := trustedBase(p, units)
	cov := map[string]any{
		"obligations": nObl - knownObl, "discharged": nDis,
		"checker_cmd":               fmt.Sprintf("bin/govc check --property %s --tier %s", prop, cfg.Tier),
		"trusted_base":              trusted,
		"functions_under_contract":  fnames,
		"functions_reached_through_calls": reachedNames(reached),
		"by_solver":                 bySolver,
		"solver_time_s":             round3(solverTime.Seconds()),
		"generation_s":              round3(tgen.Seconds()),
		"cover_checks":              map[string]int{"run": nCover, "sat": nCoverOK, "dead_paths": nDead, "inconclusive": nInconcl},
		"known_finding_obligations": knownObl,
		"known_findings":            knownHit,
		"failed_groups":             violations,
		"bounded":                   boundedOrEmpty(boundedEv),
		"samples":                   samples,
		"solvers_available":         solve.Available(),
		"explanation":               "obligations = verification conditions generated from /repo's current SSA for every contract and lemma tagged with this property and for every verified function those functions reach through calls - static, function literals, interface methods implemented by repository types - (functions_reached_through_calls; their property-labelled clauses count only for the labelled properties, their bounded stand-ins are not run here) (post, pre@call, loop invariants, frames, order, safety, lemma), excluding those matched by a listed known finding; discharged = answered unsat by at least one solver with no solver answering sat",
	}
	if slowest != nil {
		cov["slowest"] = map[string]any{"name": slowest.O.Name, "s": round3(slowest.R.Time.Seconds()), "solver": slowest.R.Solver}
	}
	ev := map[string]any{"property_id": prop, "tier": cfg.Tier, "seed": cfg.Seed, "level": "proof", "coverage": cov,
		"assumptions": assumptions, "wall_s": round3(time.Since(t0).Seconds()), "violations": violations}
	if !cfg.NoEvidence {
		writeJSON(evidencePath, ev)
	}
	fmt.Printf("property %s: %d obligations, %d discharged, %d known-finding, %d violation group(s); %d functions/lemmas; %.1fs\n",
		prop, nObl, nDis, knownObl, violations, len(units), time.Since(t0).Seconds())
	if violations > 0 {
		return 1
	}
	return 0
}

func round3(f float64) float64 { return float64(int(f*1000+0.5)) / 1000 }

func writeJSON(path string, v any) {
	data, _ := json.MarshalIndent(v, "", " ")
	_ = os.WriteFile(path, append(data, '\n'), 0o644)
}

// trustedBase lists what the proofs of these units rest on.
func trustedBase(p interface{}, units []*Unit) ([]string, []string) {
	trusted := []string{"golang.org/x/tools go/packages + go/ssa v0.50.0 (SSA is faithful to the compiler)", "govc instruction semantics and SMT encoding (DESIGN.md 2.3)",
		"z3 5.1.0, z3 4.8.12, cvc5 1.0.3", "built-in models: fmt.Errorf/errors.Is/errors.Join/errors.New, append/copy/len/cap, bytes.Compare/Equal, sync/atomic add/load, log.Panicf"}
	assumptions := []string{"sequential semantics: no goroutine interleaving, go statements ignored, channel operations opaque",
		"termination is not proved", "callers establish the preconditions of exported functions; receivers are non-nil",
		"library functions listed as pure in govc (time.*, log.Printf, fmt.Sprintf, filepath.Join/Base, strings.*, sync lock/unlock, …) do not modify modelled state"}
	seen := map[string]bool{}
	for _, u := range units {
		if u.X == nil {
			continue
		}
		for _, d := range u.X.Diag {
			k := short(u.Key) + ": " + d
			if !seen[k] {
				seen[k] = true
				assumptions = append(assumptions, "abstraction in "+k)
			}
		}
		for _, t := range u.X.TrustedUsed() {
			if !seen[t] {
				seen[t] = true
				trusted = append(trusted, t)
			}
		}
	}
	return trusted, assumptions
}

// runDriver runs a replay driver (an in-package Go test injected with -overlay) against the real code.
func runDriver(cfg Config, pkgDir, driver, casePath string) (string, string) {
	src := filepath.Join(cfg.Verif, "replay", "drivers", filepath.Base(pkgDir), driver+"_test.go")
	if _, err := os.Stat(src); err != nil {
		return "no-failing-input-found", "driver " + src + " does not exist"
	}
	tmp, err := os.MkdirTemp("", "govc-replay")
	if err != nil {
		return "no-failing-input-found", err.Error()
	}
	defer os.RemoveAll(tmp)
	target := filepath.Join(cfg.Repo, pkgDir, "zz_govc_replay_"+driver+"_test.go")
	ov := map[string]any{"Replace": map[string]string{target: src}}
	ovPath := filepath.Join(tmp, "overlay.json")
	writeJSON(ovPath, ov)
	timeout := "300s"
	if cfg.Tier == "thorough" {
		timeout = "1200s"
	}
	args := []string{"test", "-overlay", ovPath, "-vet=off", "-timeout", timeout, "-count=1"}
	if strings.HasSuffix(driver, "_race") { // drivers that run goroutines against a shared object: under the race detector
		args = append(args, "-race")
	}
	args = append(args, "-run", "^TestReplay_"+driver+"$", "./"+pkgDir+"/")
	cmd := exec.Command("go", args...)
	cmd.Dir = cfg.Repo
	cmd.Env = append(os.Environ(), "GOFLAGS=-mod=mod", "GOPROXY=off", "GOVC_REPLAY_CASE="+casePath, "GOVC_TIER="+cfg.Tier)
	out, err := cmd.CombinedOutput()
	log := string(out)
	if len(log) > 6000 {
		log = log[:3000] + "\n…\n" + log[len(log)-3000:]
	}
	if err != nil && (strings.Contains(string(out), "REPRODUCED") || strings.Contains(string(out), "WARNING: DATA RACE")) {
		return "reproduced", log
	}
	if err != nil {
		return "did-not-complete", log
	}
	return "no-failing-input-found", log
}

// Replay re-runs the driver recorded in a replay file.
func Replay(cfg Config, path string) int {
	data, err := os.ReadFile(path)
	if err != nil {
		fmt.Println(err)
		return 2
	}
	var rf replayFile
	if err := json.Unmarshal(data, &rf); err != nil {
		fmt.Println(err)
		return 2
	}
	fmt.Printf("property %s, failed obligation %s\nclause: %s\n", rf.Property, rf.Obligation, rf.Clause)
	if rf.Reason != "" {
		fmt.Println("reason:", rf.Reason)
	}
	if rf.Driver == "" {
		fmt.Println("no replay driver for this obligation: no-failing-input-found (the solver output is in the file)")
		return 0
	}
	outcome, log := runDriver(cfg, rf.Package, rf.Driver, path)
	fmt.Println(log)
	fmt.Println("replay outcome:", outcome)
	if outcome == "reproduced" {
		return 1
	}
	return 0
}

func Selftest(cfg Config, prop string) int {
	fmt.Println("selftest: use /verif/selftest/run.sh")
	return 0
}

func boundedOrEmpty(b []any) []any {
	if b == nil {
		return []any{}
	}
	return b
}

func reachedNames(m map[string]bool) []string {
	out := []string{}
	for k := range m {
		out = append(out, short(k))
	}
	sort.Strings(out)
	return out
}
