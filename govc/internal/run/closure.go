package run

import (
	"go/types"
	"sort"
	"strings"

	"golang.org/x/tools/go/ssa"

	"govc/internal/gcl"
	"govc/internal/load"
)

// executed says whether a contract is verified against its body (the same predicate generate uses).
func executed(c *gcl.Contract) bool {
	return c.Kind == "func" && (!c.Trusted || c.Assumed && len(c.Props) > 0 && (len(c.Exits) > 0 || len(c.CallAsserts) > 0))
}

// propertyClosure returns the contracts a property check covers: the functions tagged with the property plus, transitively,
// every function under a verified contract that one of them calls - statically, through a function literal it creates, or
// through an interface method that a repository type with a verified contract implements. A caller is proved against its
// callees' contracts, so the property stands on those contracts being met by the callees' bodies; a change inside a helper
// must fail the check of every property that reaches the helper, not only of the properties the helper was tagged with.
// The result maps contract key -> true when the contract carries the property tag itself, false when it was reached.
func propertyClosure(p *load.Program, prop string) map[string]bool {
	in := map[string]bool{}
	var work []string
	for k, c := range p.Contracts {
		if executed(c) && hasProp(c.Props, prop) {
			in[k] = true
			work = append(work, k)
		}
	}
	sort.Strings(work)
	keyOf := map[*ssa.Function]string{}
	for k, f := range p.Funcs {
		keyOf[f] = k
	}
	origin := func(f *ssa.Function) *ssa.Function {
		if o := f.Origin(); o != nil {
			return o
		}
		return f
	}
	add := func(k string) {
		if _, seen := in[k]; seen {
			return
		}
		c := p.Contracts[k]
		if c == nil || !executed(c) || p.Funcs[k] == nil {
			return
		}
		in[k] = false
		work = append(work, k)
	}
	// verified methods by name, for interface calls
	byMethod := map[string][]string{}
	for k, c := range p.Contracts {
		if f := p.Funcs[k]; f != nil && executed(c) && f.Signature.Recv() != nil {
			byMethod[f.Name()] = append(byMethod[f.Name()], k)
		}
	}
	for _, ks := range byMethod {
		sort.Strings(ks)
	}
	for len(work) > 0 {
		k := work[0]
		work = work[1:]
		fn := p.Funcs[k]
		if fn == nil {
			continue
		}
		for _, af := range fn.AnonFuncs {
			if ak, ok := keyOf[af]; ok {
				add(ak)
			}
		}
		for _, b := range fn.Blocks {
			for _, ins := range b.Instrs {
				ci, ok := ins.(ssa.CallInstruction)
				if !ok {
					continue
				}
				cc := ci.Common()
				if cc.IsInvoke() {
					it, _ := cc.Value.Type().Underlying().(*types.Interface)
					if it == nil {
						continue
					}
					found := false
					for _, mk := range byMethod[cc.Method.Name()] {
						if rt := p.Funcs[mk].Signature.Recv().Type(); types.Implements(rt, it) || implementsInstantiated(rt, cc.Value.Type()) {
							add(mk)
							found = true
						}
					}
					if !found {
						// no repository type under contract implements the whole interface: the object behind it is composed of
						// parts (a struct embedding smaller interfaces, like the write-ahead log). Take the methods of that name
						// and signature instead.
						for _, mk := range byMethod[cc.Method.Name()] {
							ms := p.Funcs[mk].Signature
							plain := types.NewSignatureType(nil, nil, nil, ms.Params(), ms.Results(), ms.Variadic())
							if types.Identical(plain, cc.Method.Type()) {
								add(mk)
							}
						}
					}
					continue
				}
				if sc := cc.StaticCallee(); sc != nil {
					o := origin(sc)
					if ok2 := strings.Contains(o.Name(), "$"); ok2 { // a function literal called directly
						if ak, ok := keyOf[o]; ok {
							add(ak)
						}
						continue
					}
					add(load.FuncKey(o))
				}
			}
		}
	}
	return in
}

// implementsInstantiated: the receiver type is generic and the interface is an instantiation of a generic interface with as
// many type arguments: instantiate the receiver with the same arguments and ask again (PriorityQueue[K,V,CTX] vs.
// PriorityQueueI[[]byte,[]byte,int]).
func implementsInstantiated(recv types.Type, iface types.Type) bool {
	in, ok := iface.(*types.Named)
	if !ok || in.TypeArgs() == nil || in.TypeArgs().Len() == 0 {
		return false
	}
	it, ok := in.Underlying().(*types.Interface)
	if !ok {
		return false
	}
	ptr := false
	t := recv
	if pt, ok := t.(*types.Pointer); ok {
		ptr = true
		t = pt.Elem()
	}
	n, ok := t.(*types.Named)
	if !ok {
		return false
	}
	o := n.Origin()
	if o.TypeParams() == nil || o.TypeParams().Len() != in.TypeArgs().Len() {
		return false
	}
	var targs []types.Type
	for i := 0; i < in.TypeArgs().Len(); i++ {
		targs = append(targs, in.TypeArgs().At(i))
	}
	inst, err := types.Instantiate(nil, o, targs, false)
	if err != nil {
		return false
	}
	if ptr {
		return types.Implements(types.NewPointer(inst), it)
	}
	return types.Implements(inst, it)
}
