// Package run drives loading, obligation generation, solving, reporting and evidence.
package run

import (
	"crypto/sha1"
	"encoding/json"
	"fmt"
	"os"
	"path/filepath"
	"sort"
	"strings"
	"sync"
	"time"

	"govc/internal/gcl"
	"govc/internal/load"
	"govc/internal/solve"
	"govc/internal/sym"
)

type Config struct {
	Repo, Verif string
	Tier        string
	Seed        int
	Verbose     bool
	Timeout     time.Duration
	KeepScripts bool
	Safety      bool
	Pkgs        []string
	NoEvidence  bool   // selftest runs: do not write evidence
	OutDir      string // scratch directory for scripts and replay files (default <verif>/out)
}

func (c Config) out() string {
	if c.OutDir != "" {
		return c.OutDir
	}
	return filepath.Join(c.Verif, "out")
}

const modulePrefix = "github.com/thomasjungblut/go-sstables/"

func (c Config) limit() time.Duration {
	if c.Timeout > 0 {
		return c.Timeout
	}
	if c.Tier == "thorough" {
		return 60 * time.Second
	}
	return 12 * time.Second
}

func LoadAll(cfg Config) (*load.Program, error) {
	ext, _ := filepath.Glob(filepath.Join(cfg.Verif, "contracts-ext", "*.gvc"))
	sort.Strings(ext)
	return load.Load(cfg.Repo, cfg.Pkgs, "verif", ext)
}

// Job is one obligation with its rendered script and result.
type Job struct {
	X      *sym.Exec
	O      *sym.Obligation
	Script string
	R      solve.Result
	Status string // discharged | failed | cover-ok | cover-vacuous | cover-inconclusive | dead-path
}

// Unit is one function (or lemma) under contract.
type Unit struct {
	Key      string
	Contract *gcl.Contract
	X        *sym.Exec
	Fatal    []string
	Unbound  bool
}

// generate runs the symbolic executor on every selected contract.
func generate(cfg Config, p *load.Program, sel func(key string, c *gcl.Contract) bool, selLemma func(l *gcl.Lemma) bool) []*Unit {
	var keys []string
	for k, c := range p.Contracts {
		// assumed contracts that carry exit / call clauses for a property are executed too (only those clauses are checked)
		if c.Kind == "func" && (!c.Trusted || c.Assumed && len(c.Props) > 0 && (len(c.Exits) > 0 || len(c.CallAsserts) > 0)) && sel(k, c) {
			keys = append(keys, k)
		}
	}
	sort.Strings(keys)
	units := make([]*Unit, 0, len(keys))
	for _, k := range keys {
		u := &Unit{Key: k, Contract: p.Contracts[k]}
		fn := p.Funcs[k]
		if fn == nil {
			u.Unbound = true
			units = append(units, u)
			continue
		}
		u.X = sym.New(p, fn, p.Contracts[k], sym.Options{Safety: cfg.Safety})
		units = append(units, u)
	}
	for _, l := range p.Lemmas {
		if selLemma != nil && selLemma(l) {
			u := &Unit{Key: "lemma." + l.Name, Contract: &gcl.Contract{Kind: "lemma", Name: l.Name, Props: l.Props, File: l.File, Line: l.Line}}
			u.X = sym.NewLemma(p, l)
			units = append(units, u)
		}
	}
	// symbolic execution is independent per unit; run in parallel (each Exec has its own declaration context)
	var wg sync.WaitGroup
	sem := make(chan struct{}, 16)
	for _, u := range units {
		if u.X == nil {
			continue
		}
		wg.Add(1)
		sem <- struct{}{}
		go func(u *Unit) {
			defer wg.Done()
			defer func() { <-sem }()
			if u.Contract.Kind == "lemma" {
				u.X.RunLemma()
			} else {
				u.X.Run()
			}
			u.Fatal = u.X.Fatal
		}(u)
	}
	wg.Wait()
	return units
}

func hasProp(ps []string, p string) bool {
	for _, q := range ps {
		if q == p {
			return true
		}
	}
	return false
}

// solveAll renders and solves the obligations accepted by keep.
func solveAll(cfg Config, units []*Unit, keep func(o *sym.Obligation) bool, outDir string) []*Job {
	os.MkdirAll(outDir, 0o755)
	if os.Getenv("GOVC_TIMING") != "" {
		fmt.Fprintf(os.Stderr, "timing: start render at %s\n", time.Now().Format("15:04:05.000"))
	}
	var jobs []*Job
	for _, u := range units {
		if u.X == nil {
			continue
		}
		for _, o := range u.X.Obls {
			if keep(o) {
				jobs = append(jobs, &Job{X: u.X, O: o})
			}
		}
	}
	// rendering uses the Exec's declaration context: sequential per Exec, parallel across Execs
	byExec := map[*sym.Exec][]*Job{}
	var order []*sym.Exec
	for _, j := range jobs {
		if _, ok := byExec[j.X]; !ok {
			order = append(order, j.X)
		}
		byExec[j.X] = append(byExec[j.X], j)
	}
	var wg sync.WaitGroup
	for _, x := range order {
		wg.Add(1)
		go func(js []*Job) {
			defer wg.Done()
			for _, j := range js {
				j.Script = j.X.Script(j.O, true)
			}
		}(byExec[x])
	}
	wg.Wait()
	if os.Getenv("GOVC_TIMING") != "" {
		fmt.Fprintf(os.Stderr, "timing: rendered %d scripts at %s\n", len(jobs), time.Now().Format("15:04:05.000"))
	}
	var fs []func()
	for i, j := range jobs {
		i, j := i, j
		fs = append(fs, func() {
			if len(j.Script) > 768*1024 {
				j.R = solve.Result{Answer: "error", Output: "script larger than the 768 KiB cap"}
			} else {
				limit := cfg.limit()
				if j.O.Cover {
					// anti-vacuity checks must answer sat / unsat; quantified facts often make "sat" slow (inconclusive is not a failure)
					capAt := 2 * time.Second
					if cfg.Tier == "thorough" {
						capAt = 6 * time.Second
					}
					if limit > capAt {
						limit = capAt
					}
				}
				j.R = solve.Race(j.Script, outDir, fmt.Sprintf("ob%05d", i), limit, cfg.Seed, cfg.Tier == "thorough" && !j.O.Cover)
			}
			switch {
			case j.O.Cover:
				switch j.R.Answer {
				case "sat":
					j.Status = "cover-ok"
				case "unsat":
					if j.O.Label == "return-reachable" {
						j.Status = "dead-path"
					} else {
						j.Status = "cover-vacuous"
					}
				default:
					j.Status = "cover-inconclusive"
				}
			case j.R.Answer == "unsat" && !j.R.Conflict:
				j.Status = "discharged"
			default:
				j.Status = "failed"
			}
			if !cfg.KeepScripts && j.Status != "failed" && j.Status != "cover-vacuous" {
				os.Remove(filepath.Join(outDir, fmt.Sprintf("ob%05d.smt2", i)))
			}
		})
	}
	solve.Pool(16, fs)
	if os.Getenv("GOVC_TIMING") != "" {
		fmt.Fprintf(os.Stderr, "timing: solved at %s\n", time.Now().Format("15:04:05.000"))
	}
	return jobs
}

// Verify is the development entry: all obligations of the matching contracts, failures printed.
func Verify(cfg Config, only, prop string) int {
	t0 := time.Now()
	p, err := LoadAll(cfg)
	if err != nil {
		fmt.Println("load error:", err)
		return 2
	}
	for _, e := range p.Errors {
		fmt.Println("contract error:", e)
	}
	units := generate(cfg, p, func(k string, c *gcl.Contract) bool {
		return strings.Contains(k, only) && (prop == "" || hasProp(c.Props, prop))
	}, func(l *gcl.Lemma) bool {
		return strings.Contains("lemma."+l.Name, only) && (prop == "" || hasProp(l.Props, prop))
	})
	tgen := time.Since(t0)
	bad := 0
	for _, u := range units {
		if u.Unbound {
			fmt.Printf("UNBOUND contract %s\n", u.Key)
			bad++
			continue
		}
		for _, d := range u.X.Diag {
			fmt.Printf("  diag  %s: %s\n", short(u.Key), d)
		}
		for _, d := range u.Fatal {
			fmt.Printf("  FATAL %s: %s\n", short(u.Key), d)
			bad++
		}
	}
	out := filepath.Join(cfg.out(), "verify")
	os.RemoveAll(out)
	jobs := solveAll(cfg, units, func(o *sym.Obligation) bool {
		return (prop == "" || hasProp(o.Props, prop)) && (cfg.Tier == "thorough" || o.Label != "return-reachable")
	}, out)
	okN := 0
	for i, j := range jobs {
		switch j.Status {
		case "discharged", "cover-ok":
			okN++
			if cfg.Verbose {
				fmt.Printf("ok   %-7s %-6s %5.2fs %s\n", j.R.Answer, j.R.Solver, j.R.Time.Seconds(), j.O.Name)
				if os.Getenv("GOVC_PATHS") != "" {
					fmt.Printf("      path: %s\n", j.O.Path)
				}
			}
		case "dead-path", "cover-inconclusive":
			if cfg.Verbose {
				fmt.Printf("note %s %s %s\n", j.Status, j.R.Answer, j.O.Name)
			}
		default:
			bad++
			fmt.Printf("FAIL ob%05d %-7s %-6s %5.2fs %s\n      %s\n      path: %s\n", i, j.R.Answer, j.R.Solver, j.R.Time.Seconds(), j.O.Name, j.O.Source, j.O.Path)
			if j.R.Answer == "sat" && cfg.Verbose {
				fmt.Println(indent(modelLines(j.R.Output), "      | "))
			}
		}
	}
	fmt.Printf("units: %d, obligations: %d, ok: %d, failed: %d, gen %.1fs, wall %.1fs\n", len(units), len(jobs), okN, bad, tgen.Seconds(), time.Since(t0).Seconds())
	if bad > 0 {
		return 1
	}
	return 0
}

func short(k string) string {
	if i := strings.LastIndex(k, "/"); i >= 0 {
		return k[i+1:]
	}
	return k
}

func indent(s, pre string) string {
	return pre + strings.ReplaceAll(strings.TrimRight(s, "\n"), "\n", "\n"+pre)
}

func modelLines(out string) string {
	ls := strings.Split(out, "\n")
	if len(ls) > 1 {
		ls = ls[1:]
	}
	if len(ls) > 60 {
		ls = ls[:60]
	}
	return strings.Join(ls, "\n")
}

// ---------- known findings

type Finding struct {
	ID       string `json:"id"`
	Property string `json:"property"`
	Match    string `json:"match"` // glob ('*') against the obligation name func|kind|label|path
	What     string `json:"what"`
	Replay   string `json:"replay,omitempty"`
}

type KnownFindings struct {
	Findings []Finding `json:"findings"`
	Fixed    []string  `json:"fixed"`
}

func loadKnown(cfg Config) KnownFindings {
	var k KnownFindings
	data, err := os.ReadFile(filepath.Join(cfg.Verif, "known_findings.json"))
	if err == nil {
		_ = json.Unmarshal(data, &k)
	}
	return k
}

func glob(pat, s string) bool {
	parts := strings.Split(pat, "*")
	if len(parts) == 1 {
		return pat == s
	}
	if !strings.HasPrefix(s, parts[0]) {
		return false
	}
	s = s[len(parts[0]):]
	for i := 1; i < len(parts)-1; i++ {
		j := strings.Index(s, parts[i])
		if j < 0 {
			return false
		}
		s = s[j+len(parts[i]):]
	}
	return strings.HasSuffix(s, parts[len(parts)-1])
}

func hashOf(s string) string {
	h := sha1.Sum([]byte(s))
	return fmt.Sprintf("%x", h[:6])
}
