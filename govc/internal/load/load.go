// Package load loads /repo with go/packages, builds naive SSA and indexes functions, loops and contracts.
package load

import (
	"fmt"
	"go/ast"
	"go/token"
	"go/types"
	"os"
	"sort"
	"strings"
	"sync"

	"golang.org/x/tools/go/ast/astutil"

	"golang.org/x/tools/go/packages"
	"golang.org/x/tools/go/ssa"
	"golang.org/x/tools/go/ssa/ssautil"

	"govc/internal/gcl"
)

type Program struct {
	Prog      *ssa.Program
	Pkgs      []*packages.Package
	Funcs     map[string]*ssa.Function // key: pkgpath + "." + name, e.g. ".../simpledb.floodFill", ".../recordio.(*FileWriter).Write"
	Contracts map[string]*gcl.Contract // same key; iface contracts keyed pkgpath.Iface.Method
	Specs     map[string]*gcl.Spec
	Ghosts    map[string]*gcl.Spec // ghost heaps: name -> declaration (params = index sorts, Ret = element sort)
	Lemmas    []*gcl.Lemma
	Axioms    []gcl.Clause
	Files     []string // contract files read
	Errors    []error
	fileOf    map[*token.File]*ast.File
	srcOf     map[string][]byte
	mu        sync.Mutex
}

// FuncKey computes the contract key of an SSA function.
func FuncKey(fn *ssa.Function) string {
	pkg := ""
	if fn.Pkg != nil {
		pkg = fn.Pkg.Pkg.Path()
	} else if o := fn.Object(); o != nil && o.Pkg() != nil {
		pkg = o.Pkg().Path()
	}
	name := fn.Name()
	if recv := fn.Signature.Recv(); recv != nil {
		t := recv.Type()
		ptr := false
		if p, ok := t.(*types.Pointer); ok {
			ptr = true
			t = p.Elem()
		}
		tn := "?"
		if n, ok := t.(*types.Named); ok {
			tn = n.Obj().Name()
		}
		if ptr {
			name = "(*" + tn + ")." + fn.Name()
		} else {
			name = "(" + tn + ")." + fn.Name()
		}
	}
	return pkg + "." + name
}

// addAnon registers the function literals inside fn ("<pkg>.<outer>$<n>") so that a closure can carry its own contract
// (captured variables are treated like pointer parameters).
func addAnon(p *Program, fn *ssa.Function) {
	for _, af := range fn.AnonFuncs {
		pkg := ""
		if fn.Pkg != nil {
			pkg = fn.Pkg.Pkg.Path()
		}
		key := pkg + "." + af.Name()
		if _, dup := p.Funcs[key]; !dup {
			p.Funcs[key] = af
		}
		addAnon(p, af)
	}
}

func Load(dir string, patterns []string, tags string, extraContracts []string) (*Program, error) {
	cfg := &packages.Config{Mode: packages.LoadAllSyntax, Dir: dir}
	if tags != "" {
		cfg.BuildFlags = []string{"-tags=" + tags}
	}
	pkgs, err := packages.Load(cfg, patterns...)
	if err != nil {
		return nil, err
	}
	if n := packages.PrintErrors(pkgs); n > 0 {
		return nil, fmt.Errorf("%d package errors", n)
	}
	prog, spkgs := ssautil.AllPackages(pkgs, ssa.NaiveForm|ssa.GlobalDebug)
	prog.Build()
	p := &Program{Prog: prog, Pkgs: pkgs, Funcs: map[string]*ssa.Function{}, Contracts: map[string]*gcl.Contract{},
		Specs: map[string]*gcl.Spec{}, Ghosts: map[string]*gcl.Spec{}}
	for _, sp := range spkgs {
		if sp == nil {
			continue
		}
		for _, m := range sp.Members {
			switch m := m.(type) {
			case *ssa.Function:
				p.Funcs[FuncKey(m)] = m
				addAnon(p, m)
			case *ssa.Type:
				if n, ok := m.Type().(*types.Named); ok {
					for i := 0; i < n.NumMethods(); i++ {
						if f := prog.FuncValue(n.Method(i)); f != nil {
							p.Funcs[FuncKey(f)] = f
							addAnon(p, f)
						}
					}
				}
			}
		}
	}
	// contracts from //@ comments in loaded syntax
	packages.Visit(pkgs, nil, func(pk *packages.Package) {
		for _, f := range pk.Syntax {
			fname := pk.Fset.Position(f.Pos()).Filename
			if !strings.Contains(fname, "contracts_verif") {
				continue
			}
			var lines []string
			var nos []int
			for _, cg := range f.Comments {
				for _, c := range cg.List {
					if strings.HasPrefix(c.Text, "//@") {
						lines = append(lines, strings.TrimPrefix(c.Text, "//@"))
						nos = append(nos, pk.Fset.Position(c.Pos()).Line)
					}
				}
			}
			p.Files = append(p.Files, fname)
			p.addFile(gcl.ParseComments(pk.PkgPath, fname, lines, nos))
		}
	})
	// extra contract files: first line "package <path>", remaining lines are contract text (optionally prefixed with //@)
	for _, path := range extraContracts {
		data, err := os.ReadFile(path)
		if err != nil {
			return nil, err
		}
		p.Files = append(p.Files, path)
		var pkg string
		var lines []string
		var nos []int
		for i, l := range strings.Split(string(data), "\n") {
			t := strings.TrimSpace(l)
			if strings.HasPrefix(t, "package ") {
				if len(lines) > 0 {
					p.addFile(gcl.ParseComments(pkg, path, lines, nos))
					lines, nos = nil, nil
				}
				pkg = strings.TrimSpace(strings.TrimPrefix(t, "package "))
				continue
			}
			t = strings.TrimPrefix(t, "//@")
			if strings.HasPrefix(strings.TrimSpace(t), "#") {
				continue
			}
			lines = append(lines, t)
			nos = append(nos, i+1)
		}
		p.addFile(gcl.ParseComments(pkg, path, lines, nos))
	}
	return p, nil
}

func (p *Program) addFile(f *gcl.File) {
	p.Errors = append(p.Errors, f.Errors...)
	for _, c := range f.Contracts {
		key := c.Pkg + "." + c.Name
		if c.Kind == "iface" && strings.Contains(c.Name, "/") { // fully qualified iface name
			key = c.Name
		}
		if old, dup := p.Contracts[key]; dup {
			p.Errors = append(p.Errors, fmt.Errorf("%s:%d: duplicate contract for %s (first at %s:%d)", c.File, c.Line, key, old.File, old.Line))
		}
		p.Contracts[key] = c
	}
	for _, s := range f.Specs {
		if s.Ghost {
			p.Ghosts[s.Name] = s
			continue
		}
		p.Specs[s.Name] = s
	}
	p.Lemmas = append(p.Lemmas, f.Lemmas...)
	p.Axioms = append(p.Axioms, f.Axioms...)
}

// ---------- loops

type LoopInfo struct {
	Header  *ssa.BasicBlock
	Ordinal int
	Body    map[*ssa.BasicBlock]bool
}

// Loops finds natural loops (back edge b->h with h dominating b), ordinal = order of header block index.
func Loops(fn *ssa.Function) map[*ssa.BasicBlock]*LoopInfo {
	loops := map[*ssa.BasicBlock]*LoopInfo{}
	for _, b := range fn.Blocks {
		for _, s := range b.Succs {
			if s.Dominates(b) {
				li := loops[s]
				if li == nil {
					li = &LoopInfo{Header: s, Body: map[*ssa.BasicBlock]bool{s: true}}
					loops[s] = li
				}
				// natural loop body: nodes that reach b without passing h
				var stack []*ssa.BasicBlock
				if !li.Body[b] {
					li.Body[b] = true
					stack = append(stack, b)
				}
				for len(stack) > 0 {
					n := stack[len(stack)-1]
					stack = stack[:len(stack)-1]
					for _, pr := range n.Preds {
						if !li.Body[pr] {
							li.Body[pr] = true
							stack = append(stack, pr)
						}
					}
				}
			}
		}
	}
	var hs []*ssa.BasicBlock
	for h := range loops {
		hs = append(hs, h)
	}
	sort.Slice(hs, func(i, j int) bool { return hs[i].Index < hs[j].Index })
	for i, h := range hs {
		loops[h].Ordinal = i
	}
	return loops
}

var _ = ast.Inspect

// ExprTextAt returns the source text of the innermost expression that encloses pos (whitespace normalised).
// It is used to name branch decisions and safety obligations without line numbers.
func (p *Program) ExprTextAt(pos token.Pos) string {
	if !pos.IsValid() {
		return ""
	}
	p.mu.Lock()
	defer p.mu.Unlock()
	if p.fileOf == nil {
		p.fileOf = map[*token.File]*ast.File{}
		p.srcOf = map[string][]byte{}
		packages.Visit(p.Pkgs, nil, func(pk *packages.Package) {
			for _, f := range pk.Syntax {
				if tf := pk.Fset.File(f.Pos()); tf != nil {
					p.fileOf[tf] = f
				}
			}
		})
	}
	tf := p.Prog.Fset.File(pos)
	if tf == nil {
		return ""
	}
	f := p.fileOf[tf]
	if f == nil {
		return ""
	}
	path, _ := astutil.PathEnclosingInterval(f, pos, pos)
	var node ast.Node
	for _, n := range path {
		if e, ok := n.(ast.Expr); ok {
			node = e
			break
		}
		if _, ok := n.(ast.Stmt); ok {
			node = n
			break
		}
	}
	if node == nil {
		return ""
	}
	src, ok := p.srcOf[tf.Name()]
	if !ok {
		src, _ = os.ReadFile(tf.Name())
		p.srcOf[tf.Name()] = src
	}
	a, b := tf.Offset(node.Pos()), tf.Offset(node.End())
	if a < 0 || b > len(src) || a >= b {
		return ""
	}
	txt := strings.Join(strings.Fields(string(src[a:b])), " ")
	if len(txt) > 80 {
		txt = txt[:80] + "…"
	}
	return txt
}
