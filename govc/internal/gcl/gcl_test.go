package gcl

import "testing"

func TestParse(t *testing.T) {
	for _, s := range []string{
		"forall i, j :: 0 <= i && i < j && j < len(context) ==> context[i] != context[j]",
		"err == nil ==> r0 == old(w.currentOffset) + 1",
		"a ==> b ==> c",
		"x > 0 ? y : z",
		"!errIs(inner, Done) && inner != nil ==> r2 != nil",
	} {
		e, err := ParseExpr(s)
		if err != nil {
			t.Fatalf("%s: %v", s, err)
		}
		t.Log(e.String())
	}
}
