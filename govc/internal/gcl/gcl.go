// Package gcl parses the contract language kept in //@ comments.
package gcl

import (
	"fmt"
	"strconv"
	"strings"
	"unicode"
)

// ---------- AST

type Expr interface{ String() string }

type (
	Ident  struct{ Name string }
	IntLit struct{ Val string }
	BoolLit struct{ Val bool }
	NilLit struct{}
	Binary struct {
		Op   string
		L, R Expr
	}
	Unary struct {
		Op string
		X  Expr
	}
	Call struct {
		Fun  string
		Args []Expr
	}
	Index struct{ X, I Expr }
	Field struct {
		X    Expr
		Name string
	}
	Quant struct {
		Forall bool
		Vars   []string
		Body   Expr
	}
	Old  struct{ X Expr }
	Cond struct{ C, A, B Expr }
)

func (e Ident) String() string   { return e.Name }
func (e IntLit) String() string  { return e.Val }
func (e BoolLit) String() string { return strconv.FormatBool(e.Val) }
func (e NilLit) String() string  { return "nil" }
func (e Binary) String() string  { return "(" + e.L.String() + " " + e.Op + " " + e.R.String() + ")" }
func (e Unary) String() string   { return e.Op + e.X.String() }
func (e Call) String() string {
	var as []string
	for _, a := range e.Args {
		as = append(as, a.String())
	}
	return e.Fun + "(" + strings.Join(as, ", ") + ")"
}
func (e Index) String() string { return e.X.String() + "[" + e.I.String() + "]" }
func (e Field) String() string { return e.X.String() + "." + e.Name }
func (e Quant) String() string {
	q := "exists"
	if e.Forall {
		q = "forall"
	}
	return "(" + q + " " + strings.Join(e.Vars, ", ") + " :: " + e.Body.String() + ")"
}
func (e Old) String() string  { return "old(" + e.X.String() + ")" }
func (e Cond) String() string { return "(" + e.C.String() + " ? " + e.A.String() + " : " + e.B.String() + ")" }

type Clause struct {
	Label string
	E     Expr
	Src   string
	Line  int
}

type Loop struct {
	Invariants []Clause
	Decreases  []Clause
}

type Contract struct {
	Kind     string // "func" or "iface"
	Name     string // e.g. "(*FileWriter).Write", "floodFill", "recordio.WriterI.Write"
	Pkg      string // package path of the file it was found in
	Props    []string
	Mode     string
	Bytes    string
	Requires []Clause
	Ensures  []Clause
	Modifies []string
	HasMod   bool
	Panics   string
	Loops    map[int]*Loop
	Trusted  bool
	Line     int
	File     string
}

type Spec struct {
	Name   string
	Params [][2]string // name, sort
	Ret    string
	Body   Expr
}

type File struct {
	Contracts []*Contract
	Specs     []*Spec
	Errors    []error
}

// ---------- line level parser

var clauseKW = map[string]bool{"props": true, "mode": true, "bytes": true, "requires": true, "ensures": true, "modifies": true,
	"panics": true, "loop": true, "invariant": true, "decreases": true, "trusted": true, "wrap-ok": true}

// ParseComments takes the text of all //@ lines of one file (with line numbers) and builds contracts.
func ParseComments(pkg, file string, lines []string, lineNos []int) *File {
	f := &File{}
	var cur *Contract
	var curLoop *Loop
	var pendKind string
	var pendSrc []string
	var pendLine int
	flush := func() {
		if pendKind == "" || cur == nil {
			pendKind, pendSrc = "", nil
			return
		}
		src := strings.TrimSpace(strings.Join(pendSrc, " "))
		label := ""
		if strings.HasPrefix(src, "[") { // optional [label]
			if i := strings.Index(src, "]"); i > 0 {
				label = src[1:i]
				src = strings.TrimSpace(src[i+1:])
			}
		}
		e, err := ParseExpr(src)
		if err != nil {
			f.Errors = append(f.Errors, fmt.Errorf("%s:%d: %s clause: %v", file, pendLine, pendKind, err))
		} else {
			cl := Clause{Label: label, E: e, Src: src, Line: pendLine}
			switch pendKind {
			case "requires":
				cur.Requires = append(cur.Requires, cl)
			case "ensures":
				cur.Ensures = append(cur.Ensures, cl)
			case "invariant":
				if curLoop != nil {
					curLoop.Invariants = append(curLoop.Invariants, cl)
				}
			case "decreases":
				if curLoop != nil {
					curLoop.Decreases = append(curLoop.Decreases, cl)
				}
			}
		}
		pendKind, pendSrc = "", nil
	}
	for i, raw := range lines {
		ln := lineNos[i]
		t := strings.TrimSpace(raw)
		if j := strings.Index(t, "//"); j >= 0 { // trailing comment inside contract text
			t = strings.TrimSpace(t[:j])
		}
		if t == "" {
			continue
		}
		word, rest := t, ""
		if j := strings.IndexFunc(t, unicode.IsSpace); j > 0 {
			word, rest = t[:j], strings.TrimSpace(t[j:])
		}
		switch {
		case word == "func" || word == "iface":
			flush()
			cur = &Contract{Kind: word, Name: rest, Pkg: pkg, Loops: map[int]*Loop{}, Line: ln, File: file}
			curLoop = nil
			f.Contracts = append(f.Contracts, cur)
		case word == "spec":
			flush()
			sp, err := parseSpec(rest)
			if err != nil {
				f.Errors = append(f.Errors, fmt.Errorf("%s:%d: %v", file, ln, err))
			} else {
				f.Specs = append(f.Specs, sp)
			}
			cur = nil
		case cur != nil && clauseKW[word]:
			flush()
			switch word {
			case "props":
				cur.Props = append(cur.Props, strings.Fields(rest)...)
			case "mode":
				cur.Mode = rest
			case "bytes":
				cur.Bytes = rest
			case "trusted":
				cur.Trusted = true
			case "panics":
				cur.Panics = rest
			case "modifies":
				cur.HasMod = true
				if rest != "nothing" {
					for _, m := range strings.Split(rest, ",") {
						cur.Modifies = append(cur.Modifies, strings.TrimSpace(m))
					}
				}
			case "loop":
				n, err := strconv.Atoi(strings.TrimSuffix(strings.Fields(rest)[0], ":"))
				if err != nil {
					f.Errors = append(f.Errors, fmt.Errorf("%s:%d: bad loop ordinal %q", file, ln, rest))
					continue
				}
				curLoop = &Loop{}
				cur.Loops[n] = curLoop
			default: // requires ensures invariant decreases
				pendKind, pendSrc, pendLine = word, []string{rest}, ln
			}
		case pendKind != "":
			pendSrc = append(pendSrc, t)
		default:
			f.Errors = append(f.Errors, fmt.Errorf("%s:%d: unexpected contract line %q", file, ln, t))
		}
	}
	flush()
	return f
}

func parseSpec(rest string) (*Spec, error) {
	// spec func name(a Sort, b Sort) Sort [= expr]
	rest = strings.TrimSpace(strings.TrimPrefix(rest, "func"))
	op := strings.Index(rest, "(")
	cp := strings.Index(rest, ")")
	if op < 0 || cp < op {
		return nil, fmt.Errorf("bad spec func %q", rest)
	}
	sp := &Spec{Name: strings.TrimSpace(rest[:op])}
	for _, p := range strings.Split(rest[op+1:cp], ",") {
		fs := strings.Fields(p)
		if len(fs) == 2 {
			sp.Params = append(sp.Params, [2]string{fs[0], fs[1]})
		}
	}
	tail := strings.TrimSpace(rest[cp+1:])
	if i := strings.Index(tail, "="); i >= 0 {
		sp.Ret = strings.TrimSpace(tail[:i])
		e, err := ParseExpr(strings.TrimSpace(tail[i+1:]))
		if err != nil {
			return nil, err
		}
		sp.Body = e
	} else {
		sp.Ret = tail
	}
	return sp, nil
}

// ---------- expression parser (Pratt)

type tok struct {
	kind string // id int op eof
	s    string
}

func lex(src string) ([]tok, error) {
	var ts []tok
	i := 0
	for i < len(src) {
		c := src[i]
		switch {
		case c == ' ' || c == '\t' || c == '\n':
			i++
		case unicode.IsLetter(rune(c)) || c == '_' || c == '$':
			j := i
			for j < len(src) && (unicode.IsLetter(rune(src[j])) || unicode.IsDigit(rune(src[j])) || src[j] == '_' || src[j] == '$') {
				j++
			}
			ts = append(ts, tok{"id", src[i:j]})
			i = j
		case unicode.IsDigit(rune(c)):
			j := i
			for j < len(src) && (unicode.IsDigit(rune(src[j])) || src[j] == 'x' || (src[j] >= 'a' && src[j] <= 'f') || (src[j] >= 'A' && src[j] <= 'F')) {
				j++
			}
			ts = append(ts, tok{"int", src[i:j]})
			i = j
		default:
			ops := []string{"<==>", "==>", "===", "!==", "::", "==", "!=", "<=", ">=", "&&", "||", "(", ")", "[", "]", ",", ".", "+", "-", "*", "/", "%", "<", ">", "!", "?", ":"}
			matched := false
			for _, op := range ops {
				if strings.HasPrefix(src[i:], op) {
					ts = append(ts, tok{"op", op})
					i += len(op)
					matched = true
					break
				}
			}
			if !matched {
				return nil, fmt.Errorf("unexpected character %q in %q", c, src)
			}
		}
	}
	ts = append(ts, tok{"eof", ""})
	return ts, nil
}

type parser struct {
	ts []tok
	p  int
}

func ParseExpr(src string) (Expr, error) {
	ts, err := lex(src)
	if err != nil {
		return nil, err
	}
	ps := &parser{ts: ts}
	e, err := ps.expr(0)
	if err != nil {
		return nil, err
	}
	if ps.peek().kind != "eof" {
		return nil, fmt.Errorf("trailing input at %q in %q", ps.peek().s, src)
	}
	return e, nil
}

func (p *parser) peek() tok { return p.ts[p.p] }
func (p *parser) next() tok { t := p.ts[p.p]; p.p++; return t }
func (p *parser) accept(s string) bool {
	if p.peek().kind == "op" && p.peek().s == s {
		p.p++
		return true
	}
	return false
}
func (p *parser) expect(s string) error {
	if !p.accept(s) {
		return fmt.Errorf("expected %q, found %q", s, p.peek().s)
	}
	return nil
}

var binPrec = map[string]int{"<==>": 1, "==>": 2, "||": 3, "&&": 4, "==": 5, "!=": 5, "<": 5, "<=": 5, ">": 5, ">=": 5, "===": 5, "!==": 5,
	"+": 6, "-": 6, "*": 7, "/": 7, "%": 7}

func (p *parser) expr(min int) (Expr, error) {
	lhs, err := p.unary()
	if err != nil {
		return nil, err
	}
	for {
		t := p.peek()
		if t.kind != "op" {
			break
		}
		if t.s == "?" && min <= 0 {
			p.next()
			a, err := p.expr(0)
			if err != nil {
				return nil, err
			}
			if err := p.expect(":"); err != nil {
				return nil, err
			}
			b, err := p.expr(0)
			if err != nil {
				return nil, err
			}
			lhs = Cond{lhs, a, b}
			continue
		}
		prec, ok := binPrec[t.s]
		if !ok || prec < min {
			break
		}
		p.next()
		nextMin := prec + 1
		if t.s == "==>" { // right associative
			nextMin = prec
		}
		rhs, err := p.expr(nextMin)
		if err != nil {
			return nil, err
		}
		lhs = Binary{t.s, lhs, rhs}
	}
	return lhs, nil
}

func (p *parser) unary() (Expr, error) {
	if p.accept("!") {
		x, err := p.unary()
		return Unary{"!", x}, err
	}
	if p.accept("-") {
		x, err := p.unary()
		return Unary{"-", x}, err
	}
	return p.postfix()
}

func (p *parser) postfix() (Expr, error) {
	x, err := p.primary()
	if err != nil {
		return nil, err
	}
	for {
		switch {
		case p.accept("["):
			i, err := p.expr(0)
			if err != nil {
				return nil, err
			}
			if err := p.expect("]"); err != nil {
				return nil, err
			}
			x = Index{x, i}
		case p.accept("."):
			t := p.next()
			if t.kind != "id" {
				return nil, fmt.Errorf("expected field name, found %q", t.s)
			}
			x = Field{x, t.s}
		default:
			return x, nil
		}
	}
}

func (p *parser) primary() (Expr, error) {
	t := p.next()
	switch t.kind {
	case "int":
		return IntLit{t.s}, nil
	case "id":
		switch t.s {
		case "true":
			return BoolLit{true}, nil
		case "false":
			return BoolLit{false}, nil
		case "nil":
			return NilLit{}, nil
		case "forall", "exists":
			var vars []string
			for {
				v := p.next()
				if v.kind != "id" {
					return nil, fmt.Errorf("expected bound variable, found %q", v.s)
				}
				vars = append(vars, v.s)
				if !p.accept(",") {
					break
				}
			}
			if err := p.expect("::"); err != nil {
				return nil, err
			}
			body, err := p.expr(0)
			if err != nil {
				return nil, err
			}
			return Quant{t.s == "forall", vars, body}, nil
		}
		if p.accept("(") {
			var args []Expr
			if !p.accept(")") {
				for {
					a, err := p.expr(0)
					if err != nil {
						return nil, err
					}
					args = append(args, a)
					if p.accept(")") {
						break
					}
					if err := p.expect(","); err != nil {
						return nil, err
					}
				}
			}
			if t.s == "old" && len(args) == 1 {
				return Old{args[0]}, nil
			}
			return Call{t.s, args}, nil
		}
		return Ident{t.s}, nil
	case "op":
		if t.s == "(" {
			e, err := p.expr(0)
			if err != nil {
				return nil, err
			}
			if err := p.expect(")"); err != nil {
				return nil, err
			}
			return e, nil
		}
	}
	return nil, fmt.Errorf("unexpected token %q", t.s)
}
