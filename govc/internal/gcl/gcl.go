// Package gcl parses the contract language kept in //@ comments.
package gcl

import (
	"fmt"
	"strconv"
	"strings"
	"unicode"
)

// ---------- AST

type Expr interface{ String() string }

type (
	Ident   struct{ Name string }
	IntLit  struct{ Val string }
	BoolLit struct{ Val bool }
	NilLit  struct{}
	Binary  struct {
		Op   string
		L, R Expr
	}
	Unary struct {
		Op string
		X  Expr
	}
	Call struct {
		Fun  string
		Args []Expr
	}
	Index struct{ X, I Expr }
	Field struct {
		X    Expr
		Name string
	}
	Quant struct {
		Forall bool
		Vars   []string
		Sorts  []string // parallel to Vars; "" = Int
		Body   Expr
	}
	Old  struct{ X Expr }
	Cond struct{ C, A, B Expr }
)

func (e Ident) String() string   { return e.Name }
func (e IntLit) String() string  { return e.Val }
func (e BoolLit) String() string { return strconv.FormatBool(e.Val) }
func (e NilLit) String() string  { return "nil" }
func (e Binary) String() string  { return "(" + e.L.String() + " " + e.Op + " " + e.R.String() + ")" }
func (e Unary) String() string   { return e.Op + e.X.String() }
func (e Call) String() string {
	var as []string
	for _, a := range e.Args {
		as = append(as, a.String())
	}
	return e.Fun + "(" + strings.Join(as, ", ") + ")"
}
func (e Index) String() string { return e.X.String() + "[" + e.I.String() + "]" }
func (e Field) String() string { return e.X.String() + "." + e.Name }
func (e Quant) String() string {
	q := "exists"
	if e.Forall {
		q = "forall"
	}
	return "(" + q + " " + strings.Join(e.Vars, ", ") + " :: " + e.Body.String() + ")"
}
func (e Old) String() string { return "old(" + e.X.String() + ")" }
func (e Cond) String() string {
	return "(" + e.C.String() + " ? " + e.A.String() + " : " + e.B.String() + ")"
}

type Clause struct {
	Label string
	E     Expr
	Src   string
	Line  int
}

type Loop struct {
	Invariants []Clause
	Decreases  []Clause
}

// CallAssert is an intermediate assertion tied to the N-th call (N<0: every call) of a callee inside the function.
type CallAssert struct {
	N      int
	Callee string // suffix match against the callee's key / method name
	After  bool   // evaluated after the call returned (results visible as c0, c1, ...)
	Cl     Clause
}

// Lemma is a pure proof goal over spec functions: premises ==> goal.
type Lemma struct {
	Name     string
	Pkg      string
	Props    []string
	Vars     [][2]string
	Assumes  []Clause
	Shows    []Clause
	MustFail bool // sanity lemma: expected to be refutable (sat)
	File     string
	Line     int
}

type Contract struct {
	Kind         string // "func" or "iface"
	Name         string // e.g. "(*FileWriter).Write", "floodFill", "recordio.WriterI.Write"
	Pkg          string // package path of the file it was found in
	Props        []string
	Mode         string
	Bytes        string
	Requires     []Clause
	Ensures      []Clause
	Exits        []Clause // asserted at every return like ensures, may mention locals, never exported to callers
	Modifies     []string
	HasMod       bool
	Panics       string
	Loops        map[int]*Loop
	ClosureLoops map[string]*Loop
	Trusted      bool
	Line         int
	File         string
	CallAsserts  []CallAssert
	Implements   []string // iface contract keys whose clauses this function must satisfy
	Replay       string   // replay driver name
	Safety       string   // "on" / "off" / ""
	Pure         bool     // declared to have no heap effect at all (stronger than modifies nothing: also for loops' havoc)
	Assumed      bool     // contract of a repository function that is used by callers but not (yet) verified
	AssumedFrame bool     // only the modifies clause is assumed; every other clause is verified
	Bounded      []string // bounded stand-in drivers: "<driver> <stated bound ...>"
	Fresh        []string // results that are freshly allocated objects when non-nil
	WrapOK       bool     // integer arithmetic in this function wraps by design (hash-like code): no overflow obligations
	FuncValue    bool     // contract of a function value (fnvalue): parameters only, no receiver
	Axioms       []Clause // contracts-ext only: assumed facts
	Conformance  string   // name of the executable conformance check of a trusted contract
}

type Spec struct {
	Name   string
	Params [][2]string // name, sort
	Ret    string
	Body   Expr
	Ghost  bool // mutable ghost state: heap indexed by the parameters
	Pkg    string
}

type File struct {
	Contracts []*Contract
	Specs     []*Spec
	Lemmas    []*Lemma
	Axioms    []Clause
	Errors    []error
}

// ---------- line level parser

var clauseKW = map[string]bool{"bounded": true, "assumed": true, "assumed-frame": true, "fresh": true, "exit": true, "props": true, "mode": true, "bytes": true, "requires": true, "ensures": true, "modifies": true,
	"panics": true, "loop": true, "invariant": true, "decreases": true, "trusted": true, "wrap-ok": true,
	"call": true, "aftercall": true, "implements": true, "replay": true, "safety": true, "pure": true, "conformance": true,
	"assume": true, "show": true, "vars": true, "mustfail": true}

// ParseComments takes the text of all //@ lines of one file (with line numbers) and builds contracts.
func ParseComments(pkg, file string, lines []string, lineNos []int) *File {
	f := &File{}
	var cur *Contract
	var curLemma *Lemma
	var curLoop *Loop
	var pendKind string
	var pendSrc []string
	var pendLine int
	var pendCA *CallAssert
	flush := func() {
		if pendKind == "" || (cur == nil && curLemma == nil && pendKind != "axiom" && pendKind != "spec" && pendKind != "ghost") {
			pendKind, pendSrc, pendCA = "", nil, nil
			return
		}
		src := strings.TrimSpace(strings.Join(pendSrc, " "))
		if pendKind == "spec" || pendKind == "ghost" {
			sp, err := parseSpec(src, pendKind == "ghost")
			if err != nil {
				f.Errors = append(f.Errors, fmt.Errorf("%s:%d: %v", file, pendLine, err))
			} else {
				sp.Pkg = pkg
				f.Specs = append(f.Specs, sp)
			}
			pendKind, pendSrc, pendCA = "", nil, nil
			return
		}
		if pendKind == "modifies" {
			if cur != nil && src != "nothing" {
				for _, m := range splitTop(src) {
					if m = strings.TrimSpace(m); m != "" {
						cur.Modifies = append(cur.Modifies, m)
					}
				}
			}
			pendKind, pendSrc, pendCA = "", nil, nil
			return
		}
		label := ""
		if strings.HasPrefix(src, "[") { // optional [label]
			if i := strings.Index(src, "]"); i > 0 {
				label = src[1:i]
				src = strings.TrimSpace(src[i+1:])
			}
		}
		e, err := ParseExpr(src)
		if err != nil {
			f.Errors = append(f.Errors, fmt.Errorf("%s:%d: %s clause: %v", file, pendLine, pendKind, err))
		} else {
			cl := Clause{Label: label, E: e, Src: src, Line: pendLine}
			switch pendKind {
			case "requires":
				cur.Requires = append(cur.Requires, cl)
			case "ensures":
				cur.Ensures = append(cur.Ensures, cl)
			case "exit":
				cur.Exits = append(cur.Exits, cl)
			case "invariant":
				if curLoop != nil {
					curLoop.Invariants = append(curLoop.Invariants, cl)
				}
			case "decreases":
				if curLoop != nil {
					curLoop.Decreases = append(curLoop.Decreases, cl)
				}
			case "call", "aftercall":
				pendCA.Cl = cl
				cur.CallAsserts = append(cur.CallAsserts, *pendCA)
			case "assume":
				if curLemma != nil {
					curLemma.Assumes = append(curLemma.Assumes, cl)
				}
			case "show":
				if curLemma != nil {
					curLemma.Shows = append(curLemma.Shows, cl)
				}
			case "axiom":
				f.Axioms = append(f.Axioms, cl)
			}
		}
		pendKind, pendSrc, pendCA = "", nil, nil
	}
	for i, raw := range lines {
		ln := lineNos[i]
		t := strings.TrimSpace(raw)
		if j := strings.Index(t, "//"); j >= 0 { // trailing comment inside contract text
			t = strings.TrimSpace(t[:j])
		}
		if t == "" {
			continue
		}
		word, rest := t, ""
		if j := strings.IndexFunc(t, unicode.IsSpace); j > 0 {
			word, rest = t[:j], strings.TrimSpace(t[j:])
		}
		switch {
		case word == "func" || word == "iface" || word == "fnvalue":
			flush()
			cur = &Contract{Kind: word, Name: rest, Pkg: pkg, Loops: map[int]*Loop{}, Line: ln, File: file}
			if word == "fnvalue" {
				cur.Kind, cur.FuncValue = "iface", true
			}
			curLoop, curLemma = nil, nil
			f.Contracts = append(f.Contracts, cur)
		case word == "lemma":
			flush()
			cur, curLoop = nil, nil
			curLemma = &Lemma{Name: strings.TrimSuffix(rest, ":"), Pkg: pkg, File: file, Line: ln}
			f.Lemmas = append(f.Lemmas, curLemma)
		case word == "axiom":
			flush()
			pendKind, pendSrc, pendLine = "axiom", []string{rest}, ln
		case word == "spec" || word == "ghost":
			flush()
			pendKind, pendSrc, pendLine = word, []string{rest}, ln
		case curLemma != nil && clauseKW[word]:
			flush()
			switch word {
			case "props":
				curLemma.Props = append(curLemma.Props, strings.Fields(rest)...)
			case "vars":
				for _, p := range strings.Split(rest, ",") {
					fs := strings.Fields(p)
					if len(fs) == 2 {
						curLemma.Vars = append(curLemma.Vars, [2]string{fs[0], fs[1]})
					} else if len(fs) == 1 {
						curLemma.Vars = append(curLemma.Vars, [2]string{fs[0], "Int"})
					}
				}
			case "mustfail":
				curLemma.MustFail = true
			case "assume", "show":
				pendKind, pendSrc, pendLine = word, []string{rest}, ln
			default:
				f.Errors = append(f.Errors, fmt.Errorf("%s:%d: clause %q not allowed in a lemma", file, ln, word))
			}
		case cur != nil && clauseKW[word]:
			flush()
			switch word {
			case "props":
				cur.Props = append(cur.Props, strings.Fields(rest)...)
			case "mode":
				cur.Mode = rest
			case "bytes":
				cur.Bytes = rest
			case "trusted":
				cur.Trusted = true
			case "assumed-frame":
				cur.AssumedFrame = true
			case "assumed":
				cur.Trusted = true
				cur.Assumed = true
			case "pure":
				cur.Pure = true
				cur.HasMod = true
			case "bounded":
				cur.Bounded = append(cur.Bounded, rest)
			case "conformance":
				cur.Conformance = rest
			case "fresh":
				cur.Fresh = append(cur.Fresh, strings.Fields(strings.ReplaceAll(rest, ",", " "))...)
			case "panics":
				cur.Panics = rest
			case "replay":
				cur.Replay = rest
			case "safety":
				cur.Safety = rest
			case "implements":
				cur.Implements = append(cur.Implements, strings.Fields(rest)...)
			case "modifies":
				cur.HasMod = true
				pendKind, pendSrc, pendLine = "modifies", []string{rest}, ln
			case "loop":
				arg := strings.TrimSuffix(strings.Fields(rest)[0], ":")
				if i := strings.Index(arg, ":"); i > 0 { // loop inside an inlined closure: <closure name>:<ordinal>
					if _, err := strconv.Atoi(arg[i+1:]); err != nil {
						f.Errors = append(f.Errors, fmt.Errorf("%s:%d: bad loop ordinal %q", file, ln, rest))
						continue
					}
					curLoop = &Loop{}
					if cur.ClosureLoops == nil {
						cur.ClosureLoops = map[string]*Loop{}
					}
					cur.ClosureLoops[arg] = curLoop
					continue
				}
				n, err := strconv.Atoi(arg)
				if err != nil {
					f.Errors = append(f.Errors, fmt.Errorf("%s:%d: bad loop ordinal %q", file, ln, rest))
					continue
				}
				curLoop = &Loop{}
				cur.Loops[n] = curLoop
			case "call", "aftercall": // call N of callee: assert E
				fs := strings.SplitN(rest, ":", 2)
				hd := strings.Fields(fs[0])
				if len(fs) != 2 || len(hd) != 3 || hd[1] != "of" {
					f.Errors = append(f.Errors, fmt.Errorf("%s:%d: bad call clause %q", file, ln, rest))
					continue
				}
				n := -1
				if hd[0] != "*" {
					v, err := strconv.Atoi(hd[0])
					if err != nil {
						f.Errors = append(f.Errors, fmt.Errorf("%s:%d: bad call ordinal %q", file, ln, hd[0]))
						continue
					}
					n = v
				}
				body := strings.TrimSpace(fs[1])
				body = strings.TrimSpace(strings.TrimPrefix(body, "assert"))
				pendCA = &CallAssert{N: n, Callee: hd[2], After: word == "aftercall"}
				pendKind, pendSrc, pendLine = word, []string{body}, ln
			case "wrap-ok", "assume", "show", "vars", "mustfail":
				if word == "wrap-ok" {
					cur.WrapOK = true
				} else {
					f.Errors = append(f.Errors, fmt.Errorf("%s:%d: clause %q not allowed in a function contract", file, ln, word))
				}
			default: // requires ensures invariant decreases
				pendKind, pendSrc, pendLine = word, []string{rest}, ln
			}
		case pendKind != "":
			pendSrc = append(pendSrc, t)
		default:
			f.Errors = append(f.Errors, fmt.Errorf("%s:%d: unexpected contract line %q", file, ln, t))
		}
	}
	flush()
	return f
}

// splitTop splits at commas that are not inside parentheses or brackets.
func splitTop(s string) []string {
	var out []string
	depth, last := 0, 0
	for i, c := range s {
		switch c {
		case '(', '[':
			depth++
		case ')', ']':
			depth--
		case ',':
			if depth == 0 {
				out = append(out, s[last:i])
				last = i + 1
			}
		}
	}
	return append(out, s[last:])
}

func parseSpec(rest string, ghost bool) (*Spec, error) {
	// spec func name(a Sort, b Sort) Sort [= expr]      |     ghost name(a Sort, ...) Sort
	rest = strings.TrimSpace(strings.TrimPrefix(rest, "func"))
	op := strings.Index(rest, "(")
	cp := strings.Index(rest, ")")
	if op < 0 || cp < op {
		return nil, fmt.Errorf("bad spec func %q", rest)
	}
	sp := &Spec{Name: strings.TrimSpace(rest[:op])}
	for _, p := range strings.Split(rest[op+1:cp], ",") {
		fs := strings.Fields(p)
		if len(fs) == 2 {
			sp.Params = append(sp.Params, [2]string{fs[0], fs[1]})
		}
	}
	tail := strings.TrimSpace(rest[cp+1:])
	if i := strings.Index(tail, "="); i >= 0 {
		sp.Ret = strings.TrimSpace(tail[:i])
		e, err := ParseExpr(strings.TrimSpace(tail[i+1:]))
		if err != nil {
			return nil, err
		}
		sp.Body = e
	} else {
		sp.Ret = tail
	}
	if ghost {
		sp.Ghost = true
	} else if strings.HasPrefix(sp.Ret, "ghost ") {
		sp.Ghost = true
		sp.Ret = strings.TrimSpace(strings.TrimPrefix(sp.Ret, "ghost"))
	}
	return sp, nil
}

// ---------- expression parser (Pratt)

type tok struct {
	kind string // id int op eof
	s    string
}

func lex(src string) ([]tok, error) {
	var ts []tok
	i := 0
	for i < len(src) {
		c := src[i]
		switch {
		case c == ' ' || c == '\t' || c == '\n':
			i++
		case unicode.IsLetter(rune(c)) || c == '_' || c == '$':
			j := i
			for j < len(src) && (unicode.IsLetter(rune(src[j])) || unicode.IsDigit(rune(src[j])) || src[j] == '_' || src[j] == '$') {
				j++
			}
			ts = append(ts, tok{"id", src[i:j]})
			i = j
		case unicode.IsDigit(rune(c)):
			j := i
			for j < len(src) && (unicode.IsDigit(rune(src[j])) || src[j] == 'x' || (src[j] >= 'a' && src[j] <= 'f') || (src[j] >= 'A' && src[j] <= 'F')) {
				j++
			}
			ts = append(ts, tok{"int", src[i:j]})
			i = j
		default:
			ops := []string{"<==>", "==>", "===", "!==", "::", "==", "!=", "<=", ">=", "&&", "||", "(", ")", "[", "]", ",", ".", "+", "-", "*", "/", "%", "<", ">", "!", "?", ":"}
			matched := false
			for _, op := range ops {
				if strings.HasPrefix(src[i:], op) {
					ts = append(ts, tok{"op", op})
					i += len(op)
					matched = true
					break
				}
			}
			if !matched {
				return nil, fmt.Errorf("unexpected character %q in %q", c, src)
			}
		}
	}
	ts = append(ts, tok{"eof", ""})
	return ts, nil
}

type parser struct {
	ts []tok
	p  int
}

func ParseExpr(src string) (Expr, error) {
	ts, err := lex(src)
	if err != nil {
		return nil, err
	}
	ps := &parser{ts: ts}
	e, err := ps.expr(0)
	if err != nil {
		return nil, err
	}
	if ps.peek().kind != "eof" {
		return nil, fmt.Errorf("trailing input at %q in %q", ps.peek().s, src)
	}
	return e, nil
}

func (p *parser) peek() tok { return p.ts[p.p] }
func (p *parser) next() tok { t := p.ts[p.p]; p.p++; return t }
func (p *parser) accept(s string) bool {
	if p.peek().kind == "op" && p.peek().s == s {
		p.p++
		return true
	}
	return false
}
func (p *parser) expect(s string) error {
	if !p.accept(s) {
		return fmt.Errorf("expected %q, found %q", s, p.peek().s)
	}
	return nil
}

var binPrec = map[string]int{"<==>": 1, "==>": 2, "||": 3, "&&": 4, "==": 5, "!=": 5, "<": 5, "<=": 5, ">": 5, ">=": 5, "===": 5, "!==": 5,
	"+": 6, "-": 6, "*": 7, "/": 7, "%": 7}

func (p *parser) expr(min int) (Expr, error) {
	lhs, err := p.unary()
	if err != nil {
		return nil, err
	}
	for {
		t := p.peek()
		if t.kind != "op" {
			break
		}
		if t.s == "?" && min <= 0 {
			p.next()
			a, err := p.expr(0)
			if err != nil {
				return nil, err
			}
			if err := p.expect(":"); err != nil {
				return nil, err
			}
			b, err := p.expr(0)
			if err != nil {
				return nil, err
			}
			lhs = Cond{lhs, a, b}
			continue
		}
		prec, ok := binPrec[t.s]
		if !ok || prec < min {
			break
		}
		p.next()
		nextMin := prec + 1
		if t.s == "==>" { // right associative
			nextMin = prec
		}
		rhs, err := p.expr(nextMin)
		if err != nil {
			return nil, err
		}
		lhs = Binary{t.s, lhs, rhs}
	}
	return lhs, nil
}

func (p *parser) unary() (Expr, error) {
	if p.accept("!") {
		x, err := p.unary()
		return Unary{"!", x}, err
	}
	if p.accept("-") {
		x, err := p.unary()
		return Unary{"-", x}, err
	}
	return p.postfix()
}

func (p *parser) postfix() (Expr, error) {
	x, err := p.primary()
	if err != nil {
		return nil, err
	}
	for {
		switch {
		case p.accept("["):
			i, err := p.expr(0)
			if err != nil {
				return nil, err
			}
			if err := p.expect("]"); err != nil {
				return nil, err
			}
			x = Index{x, i}
		case p.accept("."):
			t := p.next()
			if t.kind != "id" {
				return nil, fmt.Errorf("expected field name, found %q", t.s)
			}
			x = Field{x, t.s}
		default:
			return x, nil
		}
	}
}

func (p *parser) primary() (Expr, error) {
	t := p.next()
	switch t.kind {
	case "int":
		return IntLit{t.s}, nil
	case "id":
		switch t.s {
		case "true":
			return BoolLit{true}, nil
		case "false":
			return BoolLit{false}, nil
		case "nil":
			return NilLit{}, nil
		case "forall", "exists":
			var vars, sorts []string
			for {
				v := p.next()
				if v.kind != "id" {
					return nil, fmt.Errorf("expected bound variable, found %q", v.s)
				}
				vars = append(vars, v.s)
				srt := ""
				if p.peek().kind == "id" { // optional sort
					srt = p.next().s
				} else if p.peek().kind == "op" && p.peek().s == "*" && p.p+1 < len(p.ts) && p.ts[p.p+1].kind == "id" { // pointer type
					p.next()
					srt = "*" + p.next().s
				}
				sorts = append(sorts, srt)
				if !p.accept(",") {
					break
				}
			}
			for i := len(sorts) - 1; i > 0; i-- { // "a, b Bytes": a sort applies to the preceding unsorted names
				if sorts[i-1] == "" {
					sorts[i-1] = sorts[i]
				}
			}
			if err := p.expect("::"); err != nil {
				return nil, err
			}
			body, err := p.expr(0)
			if err != nil {
				return nil, err
			}
			return Quant{t.s == "forall", vars, sorts, body}, nil
		}
		if p.accept("(") {
			var args []Expr
			if !p.accept(")") {
				for {
					a, err := p.expr(0)
					if err != nil {
						return nil, err
					}
					args = append(args, a)
					if p.accept(")") {
						break
					}
					if err := p.expect(","); err != nil {
						return nil, err
					}
				}
			}
			if t.s == "old" && len(args) == 1 {
				return Old{args[0]}, nil
			}
			return Call{t.s, args}, nil
		}
		return Ident{t.s}, nil
	case "op":
		if t.s == "*" && p.peek().kind == "id" { // pointer type name (first argument of asType)
			return Ident{"*" + p.next().s}, nil
		}
		if t.s == "(" {
			e, err := p.expr(0)
			if err != nil {
				return nil, err
			}
			if err := p.expect(")"); err != nil {
				return nil, err
			}
			return e, nil
		}
	}
	return nil, fmt.Errorf("unexpected token %q", t.s)
}
