#!/bin/bash
# Recomputes dead_paths_baseline.json (number of infeasible return paths per function) on the current tree.
# Run only after reviewing the listed paths: a dead path that should be feasible means contradictory assumptions.
cd "$(dirname "$0")/.."
props=${*:-$(python3 -c "import json;print(' '.join(c['property_id'] for c in json.load(open('MANIFEST.json'))['checks']))")}
echo '{}' > dead_paths_baseline.json.new
for p in $props; do GOVC_DEADPATHS=1 ./bin/govc check --property $p --noevidence --outdir /tmp/govc-dead-$$ | grep '^DEADPATHS'; done | sort -u | python3 -c "
import sys,json,re
d={}
for l in sys.stdin:
    m=re.match(r'DEADPATHS \"(.*)\": (\d+),',l)
    if m: d[m.group(1)]=max(d.get(m.group(1),0),int(m.group(2)))
json.dump(d,open('dead_paths_baseline.json','w'),indent=1,sort_keys=True)
print(json.dumps(d,indent=1))
"
rm -rf /tmp/govc-dead-$$ dead_paths_baseline.json.new
