#!/bin/bash
# usage: tools/seed_round.sh <prop> ; confirms variants a,b delivered by a seeding agent under /root/scratch/seed-out/<prop>r5 and runs the property check on each (adapt the round suffix and the ids)
p=$1
case $p in C03) ids=(g h);; C04) ids=(e f);; C15) ids=(e f);; C11) ids=(d e);; esac
i=0
for v in a b; do
  id=$p${ids[$i]}; i=$((i+1))
  src=/root/scratch/seed-out/${p}r5/$v
  [ -f $src/patch.diff ] || { echo "NO-PATCH $id"; continue; }
  # meta property field must be the plain id
  python3 - $src/meta.json $p <<'PY'
import json,sys
m=json.load(open(sys.argv[1])); m['property']=sys.argv[2]; json.dump(m,open(sys.argv[1],'w'),indent=1)
PY
  /verif/tools/confirm_seed.sh $src $id 2>&1 | tail -4
  if [ -d /verif/seeded/$id ]; then
    echo "== try $id"
    /verif/tools/try_seed.sh /verif/seeded/$id/patch.diff $p
  fi
done
