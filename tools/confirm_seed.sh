#!/bin/bash
# usage: tools/confirm_seed.sh <seed-out-dir> <seed-id>
# Confirms a seeded change in a scratch worktree of /repo's HEAD: demo passes without the patch; with the patch the code
# builds, the existing suite passes and the demo fails. On success copies it to /verif/seeded/<seed-id>/.
set -u
src=$1; id=$2
VERIF=$(cd "$(dirname "$0")/.." && pwd)
wt=/tmp/wt-confirm-$id
export GOPROXY=off GOFLAGS=-mod=mod
git -C /repo worktree remove --force $wt 2>/dev/null
git -C /repo worktree add -q --detach $wt HEAD || exit 2
cleanup() { git -C /repo worktree remove --force $wt 2>/dev/null; }
trap cleanup EXIT
demo=$(python3 -c "import json;print(json.load(open('$src/meta.json'))['demo_file'])")
pkgdir=$(python3 -c "import json;print(json.load(open('$src/meta.json'))['demo_package_dir'])")
demo=$(basename $demo); pkgdir=${pkgdir#/tmp/wt/*/}; pkgdir=${pkgdir#/root/scratch/wt/*/}; pkgdir=${pkgdir#./}
cp $src/$demo $wt/$pkgdir/ || exit 2
run=$(grep -o 'func Test[A-Za-z0-9_]*' $src/$demo | sed 's/func //' | paste -sd'|')
echo "== demo on unmodified HEAD"
(cd $wt && go test -vet=off -count=1 -timeout 300s -run "^($run)\$" ./$pkgdir/ 2>&1 | tail -3) | tee /tmp/confirm-$id.base
grep -q '^ok' /tmp/confirm-$id.base || { echo "CONFIRM-FAIL demo does not pass on HEAD"; exit 1; }
echo "== apply patch"
(cd $wt && git apply $src/patch.diff) || { echo "CONFIRM-FAIL patch does not apply to HEAD"; exit 1; }
(cd $wt && go build ./... ) || { echo "CONFIRM-FAIL does not build"; exit 1; }
echo "== demo with patch"
(cd $wt && go test -vet=off -count=1 -timeout 300s -run "^($run)\$" ./$pkgdir/ 2>&1 | tail -5) | tee /tmp/confirm-$id.mut
grep -q '^ok' /tmp/confirm-$id.mut && { echo "CONFIRM-FAIL demo still passes with the patch"; exit 1; }
echo "== existing suite with patch (demo removed)"
rm $wt/$pkgdir/$demo
(cd $wt && go test -vet=off -count=1 -timeout 25m ./... 2>&1 | grep -v 'no test files' | grep -v '^ok' | head -20) | tee /tmp/confirm-$id.suite
[ -s /tmp/confirm-$id.suite ] && { echo "CONFIRM-FAIL existing suite fails with the patch"; exit 1; }
mkdir -p $VERIF/seeded/$id
cp $src/patch.diff $src/$demo $VERIF/seeded/$id/
python3 - "$src/meta.json" "$VERIF/seeded/$id/meta.json" "$id" <<'PY'
import json,sys
m=json.load(open(sys.argv[1]))
out={"id":sys.argv[3],"property":m["property"],"summary":m["summary"],"needs_to_manifest":m["needs_to_manifest"],"files_changed":m.get("files_changed"),
 "demo_file":m["demo_file"].split('/')[-1],"demo_package_dir":m["demo_package_dir"],
 "confirmed":["scratch worktree of /repo HEAD: demo passes without the patch","with the patch: go build ./... ok, demo fails, existing suite (go test ./...) passes"],
 "origin":"independent sub-agent given only the property text","detected_by":[]}
json.dump(out,open(sys.argv[2],'w'),indent=1)
PY
rm -f /tmp/confirm-$id.*
echo "CONFIRMED $id"
