#!/usr/bin/env python3
"""Regenerates /verif/MANIFEST.json from tools/claims.json (the per-property claim texts) and validates it."""
import json, os, subprocess, sys
V = os.path.dirname(os.path.dirname(os.path.abspath(__file__)))
props = [json.loads(l) for l in open(os.path.join(V, 'properties.jsonl'))]
claims = json.load(open(os.path.join(V, 'tools/claims.json')))
hooks = subprocess.run(['git', '-C', '/repo', 'log', '--format=%h %s'], capture_output=True, text=True).stdout.splitlines()
hook_commits = [l.split()[0] for l in hooks if 'verif hook' in l]
checks, na = [], []
for p in props:
    c = claims.get(p['id'])
    if not c or 'not_applicable' in c:
        na.append({"property_id": p['id'], "reason": (c or {}).get('not_applicable', 'not yet claimed: contracts for this property are still being written (DESIGN.md section 5)')})
        continue
    checks.append({
        "property_id": p['id'],
        "quick_cmd": "bin/govc check --property %s --tier quick" % p['id'],
        "thorough_cmd": "bin/govc check --property %s --tier thorough" % p['id'],
        "evidence_file": "/verif/evidence/%s.json" % p['id'],
        "replay_cmd_template": "bin/govc replay {path}",
        "engine": "govc",
        "level_claimed": {"category": c.get('category', 'proof'), "text": c['text'], "design_ref": c.get('design_ref', 'DESIGN.md section 5 ' + p['id'])},
        "level_note": c['note'],
        "technique": c.get('technique', "contracts (requires/ensures/invariants/frames/ghost state) on the real functions, VCs from go/ssa by symbolic execution, discharged by z3/cvc5"),
    })
m = {
    "version": 1,
    "setup_cmd": "cd /verif/govc && GOFLAGS=-mod=vendor GOPROXY=off GOTOOLCHAIN=auto go build -o /verif/bin/govc ./cmd/govc",
    "hooks": {"guard": "verif", "enable": "-tags=verif (adds the comment-only contract files <pkg>/zz_contracts_verif.go; no executable code)",
              "baseline_off_cmd": "cd /repo && GOPROXY=off go test -mod=mod -vet=off -count=1 -timeout 25m ./...",
              "source_commits": hook_commits, "add_only": True},
    "engines": [{"name": "govc", "path": "/verif/govc", "serves_properties": [c['property_id'] for c in checks],
                 "kind_free_text": "deductive: VC generator over go/ssa (naive form) of the real code + contracts in //@ comments; obligations discharged by z3 5.1 / z3 4.8.12 / cvc5 1.0.3; counterexamples replayed on the real code with go test -overlay drivers"}],
    "checks": checks,
    "notes": "exit 0 = every obligation of the property discharged (or listed in known_findings.json) and every bounded stand-in ran to completion without a violation; exit 1 + VIOLATION line otherwise. A check covers the functions tagged with the property and every verified function they reach through calls (DESIGN.md 0.6, 'property closure'); the evidence lists both sets. See DESIGN.md",
    "not_applicable": na,
}
json.dump(m, open(os.path.join(V, 'MANIFEST.json'), 'w'), indent=1)
try:
    import jsonschema
    jsonschema.validate(m, json.load(open('/root/.vp/MANIFEST.schema.json')))
    print("MANIFEST valid:", len(checks), "checks,", len(na), "not applicable")
except ImportError:
    print("written (jsonschema not importable here)")
