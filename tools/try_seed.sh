#!/bin/bash
# usage: tools/try_seed.sh <patch-file> <property> [more properties...]
# Applies a patch to a scratch COPY of /repo's working tree (never to /repo itself) and runs the property checks on it.
set -u
VERIF=$(cd "$(dirname "$0")/.." && pwd)
patch=$1; shift
tmp=$(mktemp -d /tmp/govc-try.XXXXXX)
trap 'rm -rf "$tmp"' EXIT
mkdir -p "$tmp/repo"
(cd /repo && git ls-files -z --cached --others --exclude-standard | xargs -0 -I{} cp --parents {} "$tmp/repo/" 2>/dev/null)
(cd "$tmp/repo" && patch -p1 -s < "$patch") || { echo "TRY-SEED: patch does not apply"; exit 2; }
rc=0
for prop in "$@"; do
  "$VERIF/bin/govc" check --property "$prop" --repo "$tmp/repo" --verif "$VERIF" --noevidence --outdir "$tmp/out" 2>&1 | grep -E "^VIOLATION|^KNOWN|^property|^govc:" | sed "s|$tmp/out|<scratch>|"
done
