#!/bin/bash
# Parallel variant of selftest/run.sh: usage selftest/run_parallel.sh [jobs] [name-filter]
# Every patch of the must-fail corpus is applied to its own scratch copy of /repo; the property check named for it has to
# report a VIOLATION that names the expected obligation.
set -u
VERIF=$(cd "$(dirname "$0")/.." && pwd)
export VERIF REPO=${REPO:-/repo}
jobs=${1:-3}; filter=${2:-}
tmp=$(mktemp -d /tmp/govc-selftest.XXXXXX)
trap 'rm -rf "$tmp"' EXIT
export SELFTMP=$tmp
python3 - "$VERIF" > "$tmp/list" <<'PY'
import json,sys,os,glob
v=sys.argv[1]
exp=json.load(open(os.path.join(v,'selftest/mutants/expected.json')))
for k,e in sorted(exp.items()):
    print("%s\t%s\t%s"%(os.path.join(v,'selftest/mutants',k), e['property'], e.get('obligation','')))
for m in sorted(glob.glob(os.path.join(v,'seeded/*/meta.json'))):
    e=json.load(open(m))
    d=os.path.dirname(m)
    for prop in e.get('detected_by',[]):
        print("%s\t%s\t%s"%(os.path.join(d,'patch.diff'), prop['property'], prop.get('obligation','')))
PY
one() {
  IFS=$'\t' read -r patch prop obl <<< "$1"
  d=$(mktemp -d "$SELFTMP/job.XXXXXX")
  mkdir -p "$d/repo"
  (cd "$REPO" && git ls-files -z | xargs -0 -I{} cp --parents {} "$d/repo/" 2>/dev/null)
  if ! (cd "$d/repo" && patch -p1 -s < "$patch"); then echo "SELFTEST-ERROR cannot apply $patch"; rm -rf "$d"; return; fi
  out=$("$VERIF/bin/govc" check --property "$prop" --repo "$d/repo" --verif "$VERIF" --noevidence --outdir "$d/out" 2>&1)
  if echo "$out" | grep -q "^VIOLATION property=$prop " && { [ -z "$obl" ] || echo "$out" | grep -F -q "$obl"; }; then
    echo "caught   $prop $(basename $(dirname $patch))/$(basename $patch)"
  else
    echo "MISSED   $prop $patch (expected obligation: $obl)"; echo "$out" | tail -5
  fi
  rm -rf "$d"
}
export -f one
if [ -n "$filter" ]; then grep -F "$filter" "$tmp/list" > "$tmp/list2"; else cp "$tmp/list" "$tmp/list2"; fi
n=$(wc -l < "$tmp/list2")
tr '\n' '\0' < "$tmp/list2" | xargs -0 -P "$jobs" -I{} bash -c 'one "$@"' _ {}
echo "selftest: $n patches"
