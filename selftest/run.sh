#!/bin/bash
# Must-fail corpus: every patch under selftest/mutants (and seeded/*/patch.diff) is applied to a scratch copy of /repo;
# the property check named in expected.json has to report a VIOLATION that names the expected obligation.
# usage: selftest/run.sh [name-filter]
set -u
VERIF=$(cd "$(dirname "$0")/.." && pwd)
REPO=${REPO:-/repo}
filter=${1:-}
fail=0; n=0
tmp=$(mktemp -d /tmp/govc-selftest.XXXXXX)
trap 'rm -rf "$tmp"' EXIT
python3 - "$VERIF" > "$tmp/list" <<'PY'
import json,sys,os,glob
v=sys.argv[1]
exp=json.load(open(os.path.join(v,'selftest/mutants/expected.json')))
for k,e in sorted(exp.items()):
    print(os.path.join(v,'selftest/mutants',k), e['property'], e.get('obligation',''))
for m in sorted(glob.glob(os.path.join(v,'seeded/*/meta.json'))):
    e=json.load(open(m))
    d=os.path.dirname(m)
    for prop in e.get('detected_by',[]):
        print(os.path.join(d,'patch.diff'), prop['property'], prop.get('obligation',''))
PY
while read -r patch prop obl; do
  case "$patch" in *"$filter"*) ;; *) continue;; esac
  n=$((n+1))
  rm -rf "$tmp/repo"; mkdir -p "$tmp/repo"
  (cd "$REPO" && git ls-files -z | xargs -0 -I{} cp --parents {} "$tmp/repo/" 2>/dev/null)
  if ! (cd "$tmp/repo" && git init -q . 2>/dev/null; patch -p1 -s < "$patch"); then echo "SELFTEST-ERROR cannot apply $patch"; fail=1; continue; fi
  out=$("$VERIF/bin/govc" check --property "$prop" --repo "$tmp/repo" --verif "$VERIF" --noevidence --outdir "$tmp/out" 2>&1)
  if echo "$out" | grep -q "^VIOLATION property=$prop " && { [ -z "$obl" ] || echo "$out" | grep -F -q "$obl"; }; then
    echo "caught   $prop $(basename $(dirname $patch))/$(basename $patch)"
  else
    echo "MISSED   $prop $patch (expected obligation: $obl)"; echo "$out" | tail -5; fail=1
  fi
done < "$tmp/list"
echo "selftest: $n mutants, fail=$fail"
exit $fail
