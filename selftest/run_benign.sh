#!/bin/bash
# Must-pass corpus: behaviour-preserving edits (log lines, a temporary variable, comments and blank lines, merged branches).
# The property checks named in benign/props.json must stay quiet on each of them. usage: selftest/run_benign.sh [name-filter]
set -u
VERIF=$(cd "$(dirname "$0")/.." && pwd)
REPO=${REPO:-/repo}
filter=${1:-}
fail=0
tmp=$(mktemp -d /tmp/govc-benign.XXXXXX)
trap 'rm -rf "$tmp"' EXIT
python3 -c "
import json
for k,v in sorted(json.load(open('$VERIF/selftest/benign/props.json')).items()):
    for p in v: print(k,p)
" > "$tmp/list"
while read -r patch prop; do
  case "$patch" in *"$filter"*) ;; *) continue;; esac
  rm -rf "$tmp/repo"; mkdir -p "$tmp/repo"
  (cd "$REPO" && git ls-files -z | xargs -0 -I{} cp --parents {} "$tmp/repo/" 2>/dev/null)
  (cd "$tmp/repo" && patch -p1 -s < "$VERIF/selftest/benign/$patch") || { echo "BENIGN-ERROR cannot apply $patch"; fail=1; continue; }
  out=$("$VERIF/bin/govc" check --property "$prop" --repo "$tmp/repo" --verif "$VERIF" --noevidence --outdir "$tmp/out" 2>&1); rc=$?
  if [ $rc -eq 0 ] && ! echo "$out" | grep -q "^VIOLATION"; then echo "quiet    $prop $patch"; else echo "ALARM    $prop $patch"; echo "$out" | grep "^VIOLATION" | head -5; fail=1; fi
done < "$tmp/list"
echo "benign: fail=$fail"
exit $fail
